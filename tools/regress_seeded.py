#!/venv/bin/python
"""regress_seeded.py [names...]: re-run, for every confirmed seeded change under /verif/seeded, the quick tier of the check(s) recorded
in its meta.json against a scratch copy of /repo with patch.diff applied. Writes /verif/seeded/REGRESSION.json (name -> detected by)."""
import json, os, shutil, subprocess, sys, time
VERIF = os.path.dirname(os.path.dirname(os.path.abspath(__file__)))
names = sys.argv[1:] or sorted(os.listdir(os.path.join(VERIF, 'seeded')))
out_path = os.path.join(VERIF, 'seeded', 'REGRESSION.json')
res = json.load(open(out_path)) if os.path.exists(out_path) else {}
for name in names:
    d = os.path.join(VERIF, 'seeded', name)
    if not os.path.isfile(os.path.join(d, 'patch.diff')):
        continue
    meta = json.load(open(os.path.join(d, 'meta.json')))
    checks = list(meta.get('what_i_ran', {}).get('checks', {}) or [meta['property']])
    scr = os.path.join(VERIF, '.work', f'rg_{os.getpid()}')
    shutil.rmtree(scr, ignore_errors=True)
    shutil.copytree('/repo', os.path.join(scr, 'repo'), ignore=shutil.ignore_patterns('.git', '__pycache__', '*.pyc'))
    p = subprocess.run(['patch', '-p1', '-s', '--no-backup-if-mismatch', '-i', os.path.join(d, 'patch.diff')], cwd=os.path.join(scr, 'repo'), capture_output=True, text=True)
    entry = dict(applies=(p.returncode == 0), detected_by=[], missed_by=[])
    if p.returncode == 0:
        env = dict(os.environ, VERIF_REPO=os.path.join(scr, 'repo'), PYTHONPATH=os.path.join(scr, 'repo'), VERIF_EVIDENCE_DIR=os.path.join(scr, 'ev'), VERIF_REPLAY_DIR=os.path.join(scr, 'rp'))
        for c in checks:
            t0 = time.time()
            q = subprocess.run(['/venv/bin/python', '-B', '-W', 'ignore', os.path.join(VERIF, 'mc', 'run.py'), c, '--tier', 'quick'], capture_output=True, text=True, env=env)
            (entry['detected_by'] if q.returncode == 1 else entry['missed_by']).append(c if q.returncode in (0, 1) else f'{c}(exit {q.returncode})')
    res[name] = entry
    shutil.rmtree(scr, ignore_errors=True)
    json.dump(res, open(out_path, 'w'), indent=1, sort_keys=True)
    print(name, entry, flush=True)
