#!/venv/bin/python
"""Runs the repository's baseline suite on /repo (hooks off: there are none) and checks all 153 stable tests pass."""
import os, sys
sys.path.insert(0, os.path.dirname(os.path.abspath(__file__)))
from try_mutant import baseline_ok
repo = sys.argv[1] if len(sys.argv) > 1 else '/repo'
missing = baseline_ok(repo)
try:
    os.remove(os.path.join(repo, '.junit.xml'))
except OSError:
    pass
print('baseline OK: all stable tests pass' if not missing else f'baseline BROKEN: {missing}')
sys.exit(1 if missing else 0)
