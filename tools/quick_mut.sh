#!/bin/bash
# quick_mut.sh <patch.diff> <Cxx> [tier]: run one check against a scratch copy of /repo with the patch applied (no baseline tests, nothing stored)
set -u
d=/verif/.work/qm_$$
mkdir -p $d && rsync -a --exclude .git --exclude __pycache__ /repo/ $d/repo/ && (cd $d/repo && patch -p1 -s --no-backup-if-mismatch < "$1") || { echo "patch failed"; rm -rf $d; exit 2; }
VERIF_REPO=$d/repo PYTHONPATH=$d/repo VERIF_EVIDENCE_DIR=$d/ev VERIF_REPLAY_DIR=$d/rp /venv/bin/python -B -W ignore /verif/mc/run.py $2 --tier ${3:-quick} > $d/out.txt 2>&1
rc=$?
echo "exit=$rc $(grep -c '^VIOLATION' $d/out.txt) violation line(s)"; grep -m3 "signature=" $d/out.txt | cut -c1-260; grep -m2 "HARNESS\|NONDET" $d/out.txt | cut -c1-300
rm -rf $d
