#!/usr/bin/env python3
"""Regenerates /verif/MANIFEST.json from the table below (kept in one place so it is always valid)."""
import json, os
VERIF = os.path.dirname(os.path.dirname(os.path.abspath(__file__)))
PY = '/venv/bin/python -B -W ignore /verif/mc/run.py'

# id -> (technique, level text, level_note, design_ref)
CLAIMED = json.load(open(os.path.join(VERIF, 'tools', 'claimed.json')))

EXTRA = (' Beyond this core enumeration the check runs the same oracle on fixed, listed companions added after six waves of independently seeded '
         'defects: structured large inputs, values of large / tiny / many-digit magnitude, other argument forms and dtypes, option defaults, the process '
         'time zone, and call histories on one object; the complete list is the RULE string in the evidence file and DESIGN.md section 7.4. '
         'Nothing outside the listed alphabets is decided.')

props = [json.loads(l) for l in open(os.path.join(VERIF, 'properties.jsonl'))]
checks, na = [], []
for p in props:
    pid = p['id']
    c = CLAIMED.get(pid)
    if c is None or c.get('not_applicable'):
        na.append(dict(property_id=pid, reason=(c or {}).get('not_applicable', 'check not built yet in this round (planned, see DESIGN.md section 3)')))
        continue
    checks.append(dict(
        property_id=pid,
        quick_cmd=f'{PY} {pid} --tier quick',
        thorough_cmd=f'{PY} {pid} --tier thorough',
        evidence_file=f'/verif/evidence/{pid}.json',
        replay_cmd_template=f'{PY} {pid} --replay {{path}}',
        engine='mc-explorer',
        level_claimed=dict(category='model_checking', text=c['text'], design_ref=c.get('design_ref', f'DESIGN.md section 3 {pid}')),
        level_note=c['note'] + EXTRA,
        technique=c['technique'],
    ))
m = dict(
    version=1,
    setup_cmd='cd /verif && /venv/bin/python -m compileall -q mc && /venv/bin/python -B -W ignore mc/run.py selftest',
    hooks=dict(guard='PYCSEP_VERIF', enable='no source hooks: checks observe through public API, harness-side attribute substitution and sys.settrace; nothing in /repo is guarded',
               baseline_off_cmd='cd /repo && env -u PYCSEP_VERIF /venv/bin/python -m pytest -ra -q -p no:cacheprovider --timeout=900 --continue-on-collection-errors',
               source_commits=[], add_only=True),
    engines=[dict(name='mc-explorer', path='/verif/mc', serves_properties=[c['property_id'] for c in checks],
                  kind_free_text='hand-written explicit-state / bounded-exhaustive explorer in Python driving the real pycsep code; reference models in plain Python; every explored trace is an execution of the implementation')],
    checks=checks,
    notes='See DESIGN.md. Known findings (genuine defects recorded, not repaired) and fixed defects are listed in /verif/known_findings.json.',
    not_applicable=na,
)
json.dump(m, open(os.path.join(VERIF, 'MANIFEST.json'), 'w'), indent=1)
print(f'claimed {len(checks)} not_applicable {len(na)}')
