#!/usr/bin/env python3
"""Runs every claimed check's quick (or thorough) command, validates evidence, prints a summary table."""
import json, os, subprocess, sys, time
VERIF = os.path.dirname(os.path.dirname(os.path.abspath(__file__)))
tier = sys.argv[1] if len(sys.argv) > 1 else 'quick'
only = sys.argv[2].split(',') if len(sys.argv) > 2 else None
m = json.load(open(os.path.join(VERIF, 'MANIFEST.json')))
bad = 0
for c in m['checks']:
    pid = c['property_id']
    if only and pid not in only:
        continue
    cmd = c['quick_cmd'] if tier == 'quick' else c['thorough_cmd']
    t0 = time.time()
    p = subprocess.run(cmd, shell=True, cwd=VERIF, capture_output=True, text=True)
    dt = time.time() - t0
    first = p.stdout.splitlines()[0] if p.stdout else ''
    v = subprocess.run(['python3-vt', '-c', f"import json,jsonschema;jsonschema.validate(json.load(open('{c['evidence_file']}')),json.load(open('/root/.vp/EVIDENCE.schema.json')))"], capture_output=True, text=True)
    ok = (p.returncode == 0 and v.returncode == 0)
    bad += (not ok)
    print(f"{pid} exit={p.returncode} evidence={'valid' if v.returncode == 0 else 'INVALID'} {dt:6.1f}s  {first[:150]}")
    for l in p.stdout.splitlines():
        if l.startswith(('VIOLATION', 'KNOWN-FINDING', 'NONDET', 'HARNESS')):
            print('    ' + l[:200])
    sys.stdout.flush()
sys.exit(1 if bad else 0)
