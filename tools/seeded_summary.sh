#!/bin/bash
# usage: seeded_summary.sh "C01 1 [checks]" ...   (runs eval_seeded and prints a compact line)
for spec in "$@"; do set -- $spec; extra=""; [ -n "$3" ] && extra="--checks $3"; /venv/bin/python /verif/tools/eval_seeded.py /tmp/mut_$1 $2 $1 $extra 2>&1 | /venv/bin/python -c "
import sys,json
t=sys.stdin.read()
try:
    o=json.loads(t[t.index('{'):t.rindex('}')+1])
    print(o['name'], '| applies',o.get('patch_applies'),'| tests ok',o.get('baseline_tests_still_pass'),'| demo',o.get('demo_exit_clean'),o.get('demo_exit_patched'),'| confirmed',o.get('confirmed'))
    print('   ', (o.get('summary') or '')[:200])
    for k,v in o.get('checks',{}).items(): print('   ',k,'exit',v['exit'],'detected',v['detected'], v['signatures'][:3], v.get('tail','')[-300:])
except Exception as e: print('ERR',e,t[-700:])
"; done
