#!/bin/bash
# usage: seeded_summary2.sh <dirprefix> "C01 1 name [checks]" ...
pre=$1; shift
for spec in "$@"; do set -- $spec; extra=""; [ -n "$4" ] && extra="--checks $4"; /venv/bin/python /verif/tools/eval_seeded.py ${pre}_$1 $2 $1 --name $3 $extra 2>&1 | /venv/bin/python -c "
import sys,json
t=sys.stdin.read()
try:
    o=json.loads(t[t.index('{'):t.rindex('}')+1])
    print(o['name'], '| applies',o.get('patch_applies'),'| tests ok',o.get('baseline_tests_still_pass'),'| demo',o.get('demo_exit_clean'),o.get('demo_exit_patched'),'| confirmed',o.get('confirmed'))
    print('   ', (o.get('summary') or '')[:160])
    for k,v in o.get('checks',{}).items(): print('   ',k,'exit',v['exit'],'detected',v['detected'], v['signatures'][:2], v.get('tail','')[-200:])
except Exception as e: print('ERR',e,t[-700:])
"; done
