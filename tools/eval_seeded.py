#!/venv/bin/python
"""eval_seeded.py <mut_dir> <k> <prop> [--checks C01,C02] [--tier quick] [--keep-as name]

Confirms a seeded change produced by an independent sub-agent and runs the checks against it:
  1. copy /repo's working tree to a scratch directory under /verif/.work, apply patch_k.diff there;
  2. the repository's 153 stable baseline tests must still pass with the patch;
  3. demo_k.py must exit 0 on the unpatched copy and non-zero on the patched copy;
  4. run the given checks (default: the property's own) against the patched copy and report;
  5. store patch.diff, demo.py, meta.json under /verif/seeded/<name>/ when everything is confirmed.
"""
import argparse
import json
import os
import shutil
import subprocess
import sys

VERIF = os.path.dirname(os.path.dirname(os.path.abspath(__file__)))
sys.path.insert(0, os.path.join(VERIF, 'tools'))
from try_mutant import baseline_ok  # noqa: E402


def run_demo(repo, demo):
    p = subprocess.run(['/venv/bin/python', '-W', 'ignore', demo], cwd=repo, capture_output=True, text=True,
                       env=dict(os.environ, PYTHONPATH=repo), timeout=600)
    return p.returncode, (p.stdout + p.stderr)[-600:]


def main():
    ap = argparse.ArgumentParser()
    ap.add_argument('mut_dir')
    ap.add_argument('k')
    ap.add_argument('prop')
    ap.add_argument('--checks')
    ap.add_argument('--tier', default='quick')
    ap.add_argument('--name')
    ap.add_argument('--no-store', action='store_true')
    a = ap.parse_args()
    name = a.name or f'{a.prop}_{a.k}'
    patch = os.path.join(a.mut_dir, f'patch_{a.k}.diff')
    demo = os.path.join(a.mut_dir, f'demo_{a.k}.py')
    meta = json.load(open(os.path.join(a.mut_dir, f'meta_{a.k}.json')))
    clean = os.path.join(VERIF, '.work', f'seed_clean_{os.getpid()}')
    mut = os.path.join(VERIF, '.work', f'seed_mut_{os.getpid()}')
    ign = shutil.ignore_patterns('.git', '__pycache__', '*.pyc', '.pytest_cache')
    shutil.copytree('/repo', clean, ignore=ign)
    shutil.copytree('/repo', mut, ignore=ign)
    out = dict(name=name, property=a.prop, summary=meta.get('summary'), needs=meta.get('needs'), files=meta.get('files'))
    try:
        p = subprocess.run(['patch', '-p1', '--no-backup-if-mismatch', '-i', os.path.abspath(patch)], cwd=mut, capture_output=True, text=True)
        out['patch_applies'] = (p.returncode == 0)
        if p.returncode != 0:
            print(json.dumps(out, indent=1))
            print(p.stdout[-800:], p.stderr[-400:])
            return 2
        missing = baseline_ok(mut)
        out['baseline_tests_still_pass'] = (not missing)
        out['baseline_broken'] = missing[:5]
        rc0, o0 = run_demo(clean, demo)
        rc1, o1 = run_demo(mut, demo)
        out['demo_exit_clean'] = rc0
        out['demo_exit_patched'] = rc1
        out['demo_tail_patched'] = o1[-300:]
        checks = (a.checks or a.prop).split(',')
        env = dict(os.environ, VERIF_REPO=mut, PYTHONPATH=mut, VERIF_EVIDENCE_DIR=os.path.join(mut, '.evidence'),
                   VERIF_REPLAY_DIR=os.path.join(mut, '.replays'))
        out['checks'] = {}
        for pid in checks:
            q = subprocess.run(['/venv/bin/python', '-B', '-W', 'ignore', os.path.join(VERIF, 'mc', 'run.py'), pid, '--tier', a.tier],
                               capture_output=True, text=True, env=env)
            sigs = [l.strip().split(' cases=')[0].replace('signature=', '') for l in q.stdout.splitlines() if l.strip().startswith('signature=')]
            out['checks'][pid] = dict(exit=q.returncode, detected=(q.returncode == 1), signatures=sigs[:8], tier=a.tier)
            if q.returncode not in (0, 1):
                out['checks'][pid]['tail'] = (q.stdout + q.stderr)[-600:]
        confirmed = out['baseline_tests_still_pass'] and rc0 == 0 and rc1 != 0
        out['confirmed'] = confirmed
        print(json.dumps(out, indent=1))
        if confirmed and not a.no_store:
            d = os.path.join(VERIF, 'seeded', name)
            os.makedirs(d, exist_ok=True)
            shutil.copy(patch, os.path.join(d, 'patch.diff'))
            shutil.copy(demo, os.path.join(d, 'demo.py'))
            base = subprocess.run(['git', '-C', '/repo', 'rev-parse', '--short', 'HEAD'], capture_output=True, text=True).stdout.strip()
            json.dump(dict(property=a.prop, applies_to_repo_commit=base, summary=meta.get('summary'), needs_to_manifest=meta.get('needs'), files=meta.get('files'),
                           origin='independent sub-agent given only the property text and a scratch worktree',
                           what_i_ran=dict(baseline='all 153 stable baseline tests pass with the patch applied (tools/try_mutant.baseline_ok)',
                                           demo=f'demo.py exit {rc0} on the unpatched tree, exit {rc1} with the patch',
                                           checks=out['checks'])),
                      open(os.path.join(d, 'meta.json'), 'w'), indent=1)
        return 0
    finally:
        shutil.rmtree(clean, ignore_errors=True)
        shutil.rmtree(mut, ignore_errors=True)


if __name__ == '__main__':
    sys.exit(main())
