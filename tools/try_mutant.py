#!/venv/bin/python
"""try_mutant.py --checks C02,C01 [--tests] [--tier quick] (--patch file.diff | --file F --old S --new S [--count N])

Applies a change to a scratch copy of /repo (under /verif/.work, never /repo itself), optionally runs the
repository's baseline tests there (all 153 stable tests must still pass for the mutant to count as realistic),
runs the given checks against the copy and prints one line per check. The copy is removed afterwards.
"""
import argparse
import json
import os
import shutil
import subprocess
import sys
import xml.etree.ElementTree as ET

VERIF = os.path.dirname(os.path.dirname(os.path.abspath(__file__)))


def baseline_ok(repo):
    base = json.load(open('/root/.vp/BASELINE.json'))
    want = set(base['stable_pass'])
    xml = os.path.join(repo, '.junit.xml')
    subprocess.run(['/venv/bin/python', '-m', 'pytest', '-q', '-p', 'no:cacheprovider', '--timeout=900',
                    '--continue-on-collection-errors', f'--junitxml={xml}'], cwd=repo, capture_output=True,
                   env=dict(os.environ, PYTHONPATH=repo))
    passed = set()
    for tc in ET.parse(xml).getroot().iter('testcase'):
        if not any(ch.tag in ('failure', 'error', 'skipped') for ch in tc):
            passed.add(f"{tc.get('classname')}::{tc.get('name')}")
    missing = sorted(want - passed)
    return missing


def main():
    ap = argparse.ArgumentParser()
    ap.add_argument('--checks', required=True)
    ap.add_argument('--tests', action='store_true')
    ap.add_argument('--tier', default='quick')
    ap.add_argument('--patch')
    ap.add_argument('--file')
    ap.add_argument('--old')
    ap.add_argument('--new')
    ap.add_argument('--count', type=int, default=1)
    ap.add_argument('--name', default='m')
    ap.add_argument('--seed', default='0')
    a = ap.parse_args()
    scratch = os.path.join(VERIF, '.work', f'mut_{a.name}_{os.getpid()}')
    os.makedirs(os.path.dirname(scratch), exist_ok=True)
    subprocess.run(['git', '-C', '/repo', 'worktree', 'prune'], capture_output=True)
    shutil.copytree('/repo', scratch, ignore=shutil.ignore_patterns('.git', '__pycache__', '*.pyc'))
    rc = 0
    try:
        if a.patch:
            p = subprocess.run(['patch', '-p1', '-i', os.path.abspath(a.patch)], cwd=scratch, capture_output=True, text=True)
            if p.returncode != 0:
                print('PATCH FAILED', p.stdout, p.stderr)
                return 2
        else:
            path = os.path.join(scratch, a.file)
            s = open(path).read()
            if s.count(a.old) < 1:
                print(f'OLD STRING NOT FOUND in {a.file}')
                return 2
            s = s.replace(a.old, a.new, a.count)
            open(path, 'w').write(s)
        if a.tests:
            missing = baseline_ok(scratch)
            print(f'baseline: {"all 153 stable tests pass" if not missing else "BROKEN " + str(missing[:5])}')
        env = dict(os.environ, VERIF_REPO=scratch, PYTHONPATH=scratch, VERIF_SEED=a.seed,
                   VERIF_EVIDENCE_DIR=os.path.join(scratch, '.evidence'), VERIF_REPLAY_DIR=os.path.join(scratch, '.replays'))
        for pid in a.checks.split(','):
            p = subprocess.run(['/venv/bin/python', '-B', '-W', 'ignore', os.path.join(VERIF, 'mc', 'run.py'), pid,
                                '--tier', a.tier], capture_output=True, text=True, env=env)
            viol = [l for l in p.stdout.splitlines() if l.startswith('VIOLATION')]
            sigs = [l.strip()[:230] for l in p.stdout.splitlines() if l.strip().startswith('signature=')]
            print(f'{pid}: exit={p.returncode} violations={len(viol)}')
            for s_ in sigs[:6]:
                print('    ' + s_)
            if p.returncode not in (0, 1):
                print(p.stdout[-1500:], p.stderr[-1500:])
            rc = max(rc, p.returncode)
    finally:
        shutil.rmtree(scratch, ignore_errors=True)
    return rc


if __name__ == '__main__':
    sys.exit(main())
