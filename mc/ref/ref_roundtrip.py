"""Reference model for C14 (catalog persistence round trips).

Plain Python only (csv, datetime, integer arithmetic); nothing from csep is imported here.

The oracle of a persistence round trip is the identity, so the "model" is small:
  * expected(...)            what a loaded catalog must contain (events in order, catalog id, name, region dict)
  * decode_csep_ascii(text)  the intended decoding of a CSEP ASCII catalog file (used only to *attribute* a
                             failed round trip to the writer or to the reader; it never decides pass/fail)
  * truncation_model(ms)     a model of one specific known defect (float truncation in datetime_to_utc_epoch);
                             used only to *label* an observed origin-time difference, never to accept it
  * value classes            coarse input classes for signatures, and the non-triviality rule
"""
import csv
import datetime
import io

EPOCH = datetime.datetime(1970, 1, 1)
FIELDS = ('id', 'origin_time', 'latitude', 'longitude', 'depth', 'magnitude')
ASCII_HEADER = ['lon', 'lat', 'mag', 'time_string', 'depth', 'catalog_id', 'event_id']


# ----------------------------------------------------------------------------- time
def ms_of(year, month, day, hour=0, minute=0, second=0, milli=0):
    """Integer milliseconds since 1970-01-01T00:00:00 UTC of a calendar instant (exact)."""
    d = datetime.datetime(year, month, day, hour, minute, second) - EPOCH
    return (d.days * 86400 + d.seconds) * 1000 + milli


def parse_time_string(s):
    """Exact integer milliseconds of 'YYYY-mm-ddTHH:MM:SS[.ffffff]'; (ms, leftover_microseconds)."""
    fmt = '%Y-%m-%dT%H:%M:%S.%f' if '.' in s else '%Y-%m-%dT%H:%M:%S'
    d = datetime.datetime.strptime(s, fmt) - EPOCH
    us = (d.days * 86400 + d.seconds) * 10 ** 6 + d.microseconds
    return us // 1000, us % 1000


def truncation_model(ms):
    """What `int(1000.0 * timedelta.total_seconds())` yields for an instant that is exactly `ms`.

    timedelta.total_seconds() is (total microseconds) / 10**6 (one correctly rounded division); the
    product with 1000.0 is rounded once more and int() truncates toward zero.
    """
    return int(1000.0 * ((ms * 1000) / 10 ** 6))


def time_class(ms):
    if ms < 0:
        return 'pre-1970'
    if ms >= 2 ** 31 * 1000:
        return 'post-2038'
    return '1970-2038'


# ----------------------------------------------------------------------------- intended decoding of the file
def decode_csep_ascii(text):
    """(events, catalog_ids) from the text of a CSEP ASCII catalog: optional header row, then
    lon,lat,mag,time_string,depth,catalog_id,event_id per event (RFC-4180 quoting)."""
    rows = list(csv.reader(io.StringIO(text, newline=''), delimiter=','))
    events, cids = [], []
    for i, row in enumerate(rows):
        if i == 0 and row == ASCII_HEADER:
            continue
        if len(row) != 7:
            raise ValueError(f'row {i} has {len(row)} fields: {row!r}')
        ms, rest = parse_time_string(row[3])
        if rest:
            raise ValueError(f'row {i}: time string {row[3]!r} is not on a millisecond')
        events.append((row[6], ms, float(row[1]), float(row[0]), float(row[4]), float(row[2])))
        cids.append(row[5])
    return events, cids


# ----------------------------------------------------------------------------- expectations
def as_tuples(events):
    return [tuple(e) for e in events]


def region_dict(spec):
    """The dict form a CartesianGrid2D built from `spec` is expected to survive with."""
    return {'name': spec['name'], 'dh': spec['dh'], 'class_id': 'CartesianGrid2D',
            'polygons': [{'lat': o[1], 'lon': o[0]} for o in spec['origins']]}


def region_probes(spec):
    """Probe points (lon, lat) for comparing the indexing of the original and the rebuilt region:
    every cell origin, cell midpoint, the points half a cell outside the origin, and the far corner."""
    dh = spec['dh']
    out = []
    for x, y in spec['origins']:
        out += [(x, y), (x + dh / 2, y + dh / 2), (x - dh / 2, y + dh / 2), (x + dh / 2, y - dh / 2),
                (x + dh, y + dh), (x + 0.999 * dh, y + 0.001 * dh)]
    seen, uniq = set(), []
    for p in out:
        if p not in seen:
            seen.add(p)
            uniq.append(p)
    return uniq


# ----------------------------------------------------------------------------- value classes
def id_class(s):
    if s.strip(' ') == '':
        return 'only-spaces'
    if s[0] == ' ':
        return 'leading-space'
    if s[-1] == ' ':
        return 'trailing-space'
    if '"' in s:
        return 'has-double-quote'
    if ',' in s:
        return 'has-comma'
    if ';' in s:
        return 'has-semicolon'
    if ' ' in s:
        return 'has-inner-space'
    if s.isdigit():
        return 'all-digits'
    if len(s) >= 255:
        return 'length>=255'
    if not s.isalnum():
        return 'other-punctuation'
    return 'alphanumeric'


def float_class(x):
    digits = repr(float(x)).lower().split('e')[0].replace('-', '').replace('.', '').lstrip('0')
    return 'repr>=16-digits' if len(digits) >= 16 else 'short-repr'


def value_class(field, v):
    if field == 'id':
        return id_class(v)
    if field == 'origin_time':
        return time_class(v)
    return float_class(v)


def nontrivial(events):
    """The non-triviality rule of C14 (see RULE in the check)."""
    if len(events) == 0:
        return True
    times = [e[1] for e in events]
    if any(times[i] > times[i + 1] for i in range(len(times) - 1)):
        return True
    if len(set(map(tuple, events))) < len(events):
        return True
    for e in events:
        if id_class(e[0]) != 'alphanumeric':
            return True
        if e[1] < 0 or e[1] >= 2 ** 31 * 1000 or e[1] % 1000 != 0:
            return True
        if any(float_class(v) != 'short-repr' for v in e[2:]):
            return True
        if abs(e[2]) == 90.0 or abs(e[3]) >= 179.99999999999997 or e[4] < 0 or e[5] < 0:
            return True
    return False
