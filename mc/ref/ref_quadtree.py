"""Reference model for quadtree (Web-Mercator / "quadkey") grids.  Plain Python only.

Nothing here imports mercantile, numpy or csep.  Everything is the textbook closed form:

    tile (x, y, z) from a quadkey:  digit d at each level contributes  x = 2x + (d & 1),  y = 2y + (d >> 1)
    lon(x, z) = x / 2^z * 360 - 180
    lat(y, z) = degrees(atan(sinh(pi * (1 - 2*y / 2^z))))
    bounds(qk) = (west, south, east, north) = (lon(x), lat(y+1), lon(x+1), lat(y))

Cells are west/south-inclusive and east/north-exclusive.
"""
import math

R_KM = 6371.0
LAT_LIMIT = math.degrees(math.atan(math.sinh(math.pi)))      # 85.0511287798066


# ----------------------------------------------------------------------------- tiles and bounds
def tile_of(qk):
    """(x, y, z) of a quadkey string."""
    if len(qk) == 0:
        raise ValueError('empty quadkey')
    x = y = 0
    for ch in qk:
        if ch not in '0123':
            raise ValueError('bad quadkey digit %r' % (ch,))
        d = int(ch)
        x = 2 * x + (d & 1)
        y = 2 * y + (d >> 1)
    return x, y, len(qk)


def lon_of(x, z):
    return x / 2.0 ** z * 360.0 - 180.0


def lat_of(y, z):
    return math.degrees(math.atan(math.sinh(math.pi * (1 - 2 * y / 2.0 ** z))))


def bounds(qk):
    """(west, south, east, north) of the tile of a quadkey."""
    x, y, z = tile_of(qk)
    return (lon_of(x, z), lat_of(y + 1, z), lon_of(x + 1, z), lat_of(y, z))


def all_bounds(quadkeys):
    return [bounds(q) for q in quadkeys]


def edges_consistent(depth):
    """Sanity of the closed form itself (used as a harness assertion): edges are strictly monotone at `depth`
    and an edge has the same float at every depth at which it exists."""
    n = 2 ** depth
    lons = [lon_of(x, depth) for x in range(n + 1)]
    lats = [lat_of(y, depth) for y in range(n + 1)]
    if any(not (lons[i] < lons[i + 1]) for i in range(n)):
        return False
    if any(not (lats[i] > lats[i + 1]) for i in range(n)):
        return False
    for z in range(1, depth):
        f = 2 ** (depth - z)
        for k in range(2 ** z + 1):
            if lon_of(k, z) != lons[k * f] or lat_of(k, z) != lats[k * f]:
                return False
    return lons[0] == -180.0 and lons[-1] == 180.0 and lats[0] == LAT_LIMIT and lats[-1] == -LAT_LIMIT


# ----------------------------------------------------------------------------- containment (brute force)
def contains(b, lon, lat):
    """west/south inclusive, east/north exclusive."""
    return (lon >= b[0]) and (lat >= b[1]) and (lon < b[2]) and (lat < b[3])


def containing(bounds_list, lon, lat):
    """Indices of every cell whose half-open bounds contain the point (linear scan, exact comparisons)."""
    return [i for i, b in enumerate(bounds_list) if contains(b, lon, lat)]


def count_in(b, events):
    """Number of (lon, lat) events inside the half-open bounds b."""
    return sum(1 for (lon, lat) in events if contains(b, lon, lat))


def overlapping_pairs(bounds_list):
    """All pairs (i, j), i < j, whose half-open rectangles share a point (non-empty rectangles)."""
    out = []
    n = len(bounds_list)
    for i in range(n):
        a = bounds_list[i]
        for j in range(i + 1, n):
            b = bounds_list[j]
            if max(a[0], b[0]) < min(a[2], b[2]) and max(a[1], b[1]) < min(a[3], b[3]):
                out.append((i, j))
    return out


# ----------------------------------------------------------------------------- tilings in integer tile space
def prefix_conflicts(quadkeys):
    """Pairs (i, j), i < j, where one key is a prefix of (or equal to) the other: exactly the pairs of tiles that
    intersect."""
    out = []
    n = len(quadkeys)
    for i in range(n):
        for j in range(i + 1, n):
            a, b = quadkeys[i], quadkeys[j]
            if a.startswith(b) or b.startswith(a):
                out.append((i, j))
    return out


def prefix_free(quadkeys):
    """Same decision as `not prefix_conflicts(...)` but O(n * depth) with a set (for large grids)."""
    s = set(quadkeys)
    if len(s) != len(quadkeys):
        return False
    for q in quadkeys:
        for k in range(1, len(q)):
            if q[:k] in s:
                return False
    return True


def tile_measure(quadkeys):
    """(sum of tile areas, area of the globe) in units of the finest tile present (exact integers)."""
    depth = max(len(q) for q in quadkeys)
    return sum(4 ** (depth - len(q)) for q in quadkeys), 4 ** depth


def is_complete_tiling(quadkeys):
    s, g = tile_measure(quadkeys)
    return prefix_free(list(quadkeys)) and s == g


def single_resolution(zoom):
    """Every quadkey of length `zoom`."""
    out = ['']
    for _ in range(zoom):
        out = [q + d for q in out for d in '0123']
    return out


# ----------------------------------------------------------------------------- catalog-driven refinement
def refine(events, threshold, max_zoom, starts=('0', '1', '2', '3')):
    """Leaves [(quadkey, count)] of the refinement: a tile is split into its four children iff it holds more than
    `threshold` events and is shallower than `max_zoom`.  events = [(lon, lat), ...]."""
    leaves = []

    def rec(qk):
        n = count_in(bounds(qk), events)
        if n > threshold and len(qk) < max_zoom:
            for d in '0123':
                rec(qk + d)
        else:
            leaves.append((qk, n))

    for s in starts:
        rec(s)
    return leaves


def refinement_defects(quadkeys, events, threshold, max_zoom, start_depth=1):
    """The property's clauses, judged directly on a set of leaves (independent of `refine`):
    returns a list of (clause, quadkey, count)."""
    out = []
    for q in quadkeys:
        n = count_in(bounds(q), events)
        if len(q) > max_zoom and len(q) > start_depth:
            out.append(('beyond-max-zoom', q, n))
        if n > threshold and len(q) < max_zoom:
            out.append(('leaf-above-threshold', q, n))
        if len(q) > start_depth:
            p = count_in(bounds(q[:-1]), events)
            if p <= threshold:
                out.append(('split-at-or-below-threshold', q, p))
    return out


# ----------------------------------------------------------------------------- areas
def cell_area(b):
    """Spherical area (km^2) of the lon/lat rectangle b = (west, south, east, north)."""
    return R_KM * R_KM * math.radians(b[2] - b[0]) * (math.sin(math.radians(b[3])) - math.sin(math.radians(b[1])))


def band_area(lat_min, lat_max, dlon=360.0):
    """Area of the latitude band [lat_min, lat_max] restricted to dlon degrees of longitude."""
    return 2.0 * math.pi * R_KM * R_KM * (math.sin(math.radians(lat_max)) - math.sin(math.radians(lat_min))) * (dlon / 360.0)


def bbox(bounds_list):
    """(min lon, max lon, min lat, max lat) in the order the library reports it."""
    return (min(b[0] for b in bounds_list), max(b[2] for b in bounds_list),
            min(b[1] for b in bounds_list), max(b[3] for b in bounds_list))
