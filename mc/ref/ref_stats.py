"""Reference models for the gridded consistency tests (plain Python; never imports csep)."""
import itertools
import math
from fractions import Fraction

EPS = 2.0 ** -52
NEG_INF = float('-inf')


# ----------------------------------------------------------------------------- Poisson joint log-likelihood
def poisson_jll(rates, counts, expected_total=None):
    """sum_k [ w_k ln(lam_k) - lam_k - lgamma(w_k+1) ], with 0*ln0 = 0 and w>0, lam=0 -> -inf.
    rates, counts: flat sequences. expected_total: the sum of rates to subtract (defaults to sum(rates))."""
    total = math.fsum(rates) if expected_total is None else expected_total
    s = []
    for lam, w in zip(rates, counts):
        if w > 0:
            if lam <= 0:
                return NEG_INF
            s.append(w * math.log(lam) - math.lgamma(w + 1))
    return math.fsum(s) - total


def scaled(rates, factor):
    return [r * factor for r in rates]


# ----------------------------------------------------------------------------- inverse CDF with exact rationals
def exact_cdf(rates):
    """F[0]=0 <= F[1] <= ... <= F[n]=1 as exact Fractions of the float rates (non-positive rates count as zero)."""
    fr = [Fraction(r) if r > 0 else Fraction(0) for r in rates]
    total = sum(fr)
    acc = Fraction(0)
    F = [Fraction(0)]
    for r in fr:
        acc += r
        F.append(acc / total)
    return F


def allowed_bins(u, F, rates, delta=4 * EPS):
    """Bins a uniform draw u may be placed in: positive-rate bins whose exact interval [F_k, F_{k+1}) contains u,
    or comes within delta of u (round-off of the float cumulative weights)."""
    uu = Fraction(u)
    d = Fraction(delta)
    out = []
    for k, r in enumerate(rates):
        if r > 0 and F[k] <= uu + d and uu - d < F[k + 1]:
            out.append(k)
    return out


def strict_bin(u, F, rates):
    uu = Fraction(u)
    for k, r in enumerate(rates):
        if r > 0 and F[k] <= uu < F[k + 1]:
            return k
    return None


def placement_ok(sim_counts, draws, F, rates, delta=4 * EPS):
    """Is the simulated count array explained by placing each draw in one of its allowed bins?"""
    n = len(rates)
    if len(sim_counts) != n:
        return False
    options = [allowed_bins(u, F, rates, delta) for u in draws]
    if any(not o for o in options):
        return False
    target = [int(c) for c in sim_counts]
    if sum(target) != len(draws):
        return False
    if len(draws) > 6:   # greedy check is enough when every draw is unambiguous
        if all(len(o) == 1 for o in options):
            got = [0] * n
            for o in options:
                got[o[0]] += 1
            return got == target
    for combo in itertools.product(*options):
        got = [0] * n
        for k in combo:
            got[k] += 1
        if got == target:
            return True
    return False


def draw_alphabet(rates, extra_ulps=(1,)):
    """U = {0, every cumulative boundary (as float) and its ulp neighbours, every interval midpoint, 1-2^-53}."""
    F = exact_cdf(rates)
    vals = {0.0, 1.0 - 2.0 ** -53}
    for k in range(1, len(F)):
        b = float(F[k])
        for j in (0,) + tuple(extra_ulps) + tuple(-e for e in extra_ulps):
            x = b
            for _ in range(abs(j)):
                x = math.nextafter(x, 2.0 if j > 0 else -1.0)
            if 0.0 <= x < 1.0:
                vals.add(x)
        if F[k] > F[k - 1]:
            m = float((F[k] + F[k - 1]) / 2)
            if 0.0 <= m < 1.0:
                vals.add(m)
    return sorted(vals)


def midpoints(rates):
    F = exact_cdf(rates)
    return [float((F[k] + F[k + 1]) / 2) for k, r in enumerate(rates) if r > 0]


# ----------------------------------------------------------------------------- binary likelihood and Brier score
def binary_jll(rates, counts):
    """sum over active bins ln(1-exp(-lam)) + sum over inactive bins (-lam); ln(0) = -inf."""
    s = []
    for lam, w in zip(rates, counts):
        if w > 0:
            p = -math.expm1(-lam)
            if p <= 0:
                return NEG_INF
            s.append(math.log(p))
        else:
            s.append(-lam)
    return math.fsum(s)


def brier(rates, counts):
    n = len(rates)
    return -2.0 / n * math.fsum((-math.expm1(-lam) - (1.0 if w > 0 else 0.0)) ** 2 for lam, w in zip(rates, counts))


def quantile_le(sim, obs):
    return sum(1 for s in sim if s <= obs) / len(sim)
