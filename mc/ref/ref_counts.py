"""Reference count laws for the number tests (C07): Poisson, negative binomial, empirical.

Plain Python (math, fractions).  Nothing here imports csep, numpy or scipy.

A law is tabulated once as a list of point masses over its *effective support* [lo, hi]:
  * the log point mass at the mode comes from the closed formula with math.lgamma,
  * the other masses follow outward from the mode through the exact term ratio
        Poisson            pmf(k+1)/pmf(k) = mu/(k+1)
        negative binomial  pmf(k+1)/pmf(k) = (k+r)/(k+1) * (1-p)
    carried in log space (log1p of the ratio minus one is added to a compensated running log mass, so no
    product of rounded ratios accumulates and lgamma is evaluated once, at the mode),
  * the walk stops where exp(log mass) underflows to 0.0 (log mass < -745), or at k = 0 on the left,
  * the table is divided by its own math.fsum total.  The total is 1 up to the error of lgamma at the mode
    (about 1e-16 * |lgamma|); it is returned so that the caller can assert it (a wrong ratio, a wrong closed
    formula or a truncated support would show up there).
Tails are exactly rounded sums (math.fsum) of table entries:
    P(N >= n) = fsum(table[n..hi]),  P(N <= n) = fsum(table[lo..n]),  P(N = n) = table[n].
Masses outside [lo, hi] are below 5e-324 each and decay at least geometrically, so they contribute < 1e-300.
"""
import math
from fractions import Fraction

LOG_TINY = -745.2          # exp() of anything below is 0.0 in float64
MAX_TERMS = 5_000_000      # a law whose effective support is longer is refused (the caller must not enumerate it)


# ---------------------------------------------------------------------------- closed-form log masses
def poisson_logpmf(k, mu):
    return k * math.log(mu) - mu - math.lgamma(k + 1.0)


def nbd_params(mean, var):
    """(r, p) of the negative binomial with the given mean and variance (var > mean > 0):
    mean = r(1-p)/p, var = r(1-p)/p^2."""
    p = mean / var
    r = mean * mean / (var - mean)
    return r, p


def nbd_logpmf(k, r, p):
    return (math.lgamma(k + r) - math.lgamma(k + 1.0) - math.lgamma(r)
            + r * math.log(p) + k * math.log1p(-p))


def poisson_mode(mu):
    return int(math.floor(mu))


def nbd_mode(r, p):
    if r <= 1.0:
        return 0
    return max(0, int(math.floor((r - 1.0) * (1.0 - p) / p)))


# ---------------------------------------------------------------------------- tabulated law
class Law:
    """Point masses of a law on the integers lo..hi (everything else is 0 to within 1e-300)."""

    def __init__(self, lo, masses, raw_total, name):
        self.lo = lo
        self.hi = lo + len(masses) - 1
        self.masses = masses
        self.raw_total = raw_total      # fsum of the un-normalised masses (should be 1)
        self.name = name

    def pmf(self, n):
        if n < self.lo or n > self.hi:
            return 0.0
        return self.masses[n - self.lo]

    def tail_ge(self, n):
        """P(N >= n), exactly rounded sum of the tabulated masses."""
        if n > self.hi:
            return 0.0
        i = max(0, n - self.lo)
        return min(1.0, math.fsum(self.masses[i:]))

    def tail_le(self, n):
        """P(N <= n)."""
        if n < self.lo:
            return 0.0
        j = min(len(self.masses), n - self.lo + 1)
        return min(1.0, math.fsum(self.masses[:j]))

    def tails(self, ns):
        """{n: (P(N>=n), P(N<=n), P(N=n))} for many n in one pass.

        The support is cut at the requested n; each piece is summed once with math.fsum (exactly rounded) and
        the tails are math.fsum of the piece sums (at most len(ns)+1 pieces: error below 1e-13)."""
        ns = sorted(set(int(n) for n in ns))
        m = self.masses
        L = len(m)
        # piece j = masses strictly between cut points; cut points themselves are kept apart
        cuts = [n for n in ns if self.lo <= n <= self.hi]
        below = []      # sums of the open pieces: (.., cuts[0]), (cuts[0], cuts[1]), ..., (cuts[-1], ..)
        start = 0
        for c in cuts:
            i = c - self.lo
            below.append(math.fsum(m[start:i]))
            start = i + 1
        below.append(math.fsum(m[start:L]))
        at = [m[c - self.lo] for c in cuts]
        out = {}
        for n in ns:
            if n < self.lo:
                out[n] = (min(1.0, math.fsum(below + at)), 0.0, 0.0)
            elif n > self.hi:
                out[n] = (0.0, min(1.0, math.fsum(below + at)), 0.0)
            else:
                j = cuts.index(n)
                le = math.fsum(below[:j + 1] + at[:j + 1])
                ge = math.fsum(below[j + 1:] + at[j:])
                out[n] = (min(1.0, ge), min(1.0, le), at[j])
        return out


def _tabulate(mode, logpmf, logratio_up, name):
    """Walk outward from the mode.  logratio_up(k) = log(pmf(k+1)/pmf(k)).

    The running log mass is a compensated (Neumaier) sum of the log ratios, so the only error left is that of
    each log ratio itself (they are computed with log1p of a small exactly-formed quantity, see callers)."""
    lm0 = logpmf(mode)
    raw_side = []
    for direction in (+1, -1):
        out = []
        k = mode
        s = lm0          # running sum
        c = 0.0          # compensation
        while True:
            if direction > 0:
                t = logratio_up(k)
                k += 1
            else:
                if k == 0:
                    break
                t = -logratio_up(k - 1)
                k -= 1
            u = s + t
            if abs(s) >= abs(t):
                c += (s - u) + t
            else:
                c += (t - u) + s
            s = u
            lm = s + c
            if lm < LOG_TINY:
                break
            out.append(math.exp(lm))
            if len(out) > MAX_TERMS:
                raise OverflowError(f'{name}: effective support longer than {MAX_TERMS} terms')
        raw_side.append(out)
    right, left = raw_side
    lo = mode - len(left)
    raw = left[::-1] + [math.exp(lm0)] + right
    total = math.fsum(raw)
    masses = [x / total for x in raw]
    return Law(lo, masses, total, name)


def _log_ratio(diff, num, den):
    """log(num/den) where diff = num - den was formed by the caller from the exact ingredients: log1p(diff/den)
    when the ratio is near 1 (no cancellation error), plain log of the quotient otherwise."""
    x = diff / den
    if x > -0.5:
        return math.log1p(x)
    return math.log(num / den)


def poisson_law(mu):
    mu = float(mu)
    if not (mu > 0.0):
        raise ValueError('mu must be positive')
    return _tabulate(poisson_mode(mu),
                     lambda k: poisson_logpmf(k, mu),
                     lambda k: _log_ratio(mu - (k + 1.0), mu, k + 1.0),
                     f'Poisson({mu!r})')


def nbd_law(mean, var):
    mean = float(mean)
    var = float(var)
    if not (var > mean > 0.0):
        raise ValueError('need var > mean > 0')
    r, p = nbd_params(mean, var)
    l1p = math.log1p(-p)
    return _tabulate(nbd_mode(r, p),
                     lambda k: nbd_logpmf(k, r, p),
                     lambda k: _log_ratio(r - 1.0, k + r, k + 1.0) + l1p,
                     f'NBD(mean={mean!r}, var={var!r})')


# ---------------------------------------------------------------------------- empirical law
def empirical_tails(sizes, n):
    """(P(N>=n), P(N<=n), P(N=n)) of the empirical law of a list of integer sizes, by counting."""
    J = len(sizes)
    ge = sum(1 for s in sizes if s >= n)
    le = sum(1 for s in sizes if s <= n)
    eq = sum(1 for s in sizes if s == n)
    return ge / J, le / J, eq / J


# ---------------------------------------------------------------------------- forecast totals
def exact_total(rates, scale=None):
    """The float nearest to the exact sum of the float rates (times the float scale factor, exactly)."""
    s = sum((Fraction(float(x)) for x in rates), Fraction(0))
    if scale is not None:
        s = s * Fraction(float(scale))
    return float(s)
