"""Reference writers for the five catalog text formats and the intended decoding of what they wrote.

Plain Python only (str formatting, decimal, datetime, math, struct). Nothing from csep is imported here.

A *record* is a JSON-serialisable dict

    dict(lon='-179.99', lat='89.99', depth='10.5', mag='5.25',        decimal strings
         t=[year, month, day, hour, minute, 'ss.ffffff'],              the clock fields AS WRITTEN (second may be '60.0')
         off='+0900',                                                  JMA only: offset of the written clock from UTC
         var={...})                                                    per-record optional-column choices (format specific)

`write(fmt, records, opts)` returns `(text, expected)` where `expected` is a list with one dict per record, in order:

    dict(lon=float, lat=float, depth=float, mag=float,   values of the *written* field texts (alternatives in lists)
         t_us=int,                                        encoded instant, microseconds since 1970-01-01T00:00:00 UTC
         res='ms'|'s')

The expected numbers are derived from the field texts that really went into the file (so a value that the format's
fixed-width field cannot hold with all its digits is expected as written, not as asked for).

Format sources
  csep-csv    docstring of CSEPCatalog.write_ascii ("longitude, latitude, M, time_string format=%Y-%m-%dT%H:%M:%S.%f,
              depth, catalog_id, [event_id]") and tests/artifacts/test_ascii_catalogs/*.csv
  jma-csv     tests/artifacts/JMA-observed_catalog/test.csv ("timestamp;longitude;latitude;depth;magnitude",
              1919-11-10T22:31:03.590000+0900;125.8605;28.5437;32.07;6.374)
  ingv_horus  tests/artifacts/ingv_catalogs/HORUS_Ita_Catalog.txt (tab separated %20.10f columns Year Mo Da Ho Mi Se Lat
              Lon Depth Mw sigMw Geo-Ita Geo-CPTI15, one header line; the fixture itself carries Mi=60, Se=64.29)
  zmap        docstring / ColumnIndex of readers.zmap_ascii: whitespace separated numeric columns
              lon lat (decimal)year month day magnitude depth hour minute second [h_err depth_err mag_err]
  ndk         the column description quoted in readers.ndk (Global CMT "ndk" format, five 80-column lines per event)
"""
import datetime
import decimal
import math
import struct

D = decimal.Decimal
FORMATS = ('csep-csv', 'jma-csv', 'zmap', 'ingv_horus', 'ndk')
RESOLUTION = {'csep-csv': 'ms', 'jma-csv': 'ms', 'zmap': 's', 'ingv_horus': 's', 'ndk': 's'}
EXT = {'csep-csv': '.csv', 'jma-csv': '.csv', 'zmap': '.dat', 'ingv_horus': '.txt', 'ndk': '.ndk'}
EPOCH = datetime.datetime(1970, 1, 1)
US = datetime.timedelta(microseconds=1)


# ----------------------------------------------------------------------------- time
def sec_to_us(sec_text):
    """'59.999' -> 59999000 (exact, decimal)."""
    us = D(sec_text) * 1000000
    assert us == us.to_integral_value(), sec_text
    return int(us)


def offset_minutes(off):
    """'+0900' -> 540, '-0330' -> -210."""
    sign = -1 if off[0] == '-' else 1
    return sign * (int(off[1:3]) * 60 + int(off[3:5]))


def instant_us(t, off='+0000'):
    """Microseconds since the epoch (UTC) of the written clock reading: the calendar day plus hours, minutes and seconds
    counted by plain arithmetic (so second 60 is the first second of the next minute), minus the clock's UTC offset."""
    y, mo, d, h, mi, sec = t
    day = datetime.datetime(y, mo, d)
    us = (day - EPOCH) // US
    us += (h * 3600 + mi * 60) * 1000000 + sec_to_us(sec)
    us -= offset_minutes(off) * 60 * 1000000
    return us


def acceptable_times_ms(t_us, res):
    """Every integer-millisecond origin time that is 'the encoded instant at the format's resolution': rounding down
    or to nearest at that resolution (the same thing when the instant is representable). A reader of a
    second-resolution format may also keep milliseconds."""
    out = set()
    for unit in ([1000] if res == 'ms' else [1000000, 1000]):
        lo = t_us // unit                      # floor, also for instants before 1970
        out.add(lo * unit // 1000)
        if 2 * (t_us % unit) >= unit:
            out.add((lo + 1) * unit // 1000)
    return sorted(out)


def float_truncation_prediction_ms(t_us):
    """What `int(1000.0 * seconds_as_float)` gives for this instant (the known defect of datetime_to_utc_epoch owned by
    C15). Used ONLY to label an already detected 1-ms-low disagreement, never to accept anything."""
    return int(1000.0 * (t_us / 10 ** 6))


def f32(x):
    """x rounded to IEEE single and back (struct; no numpy)."""
    return struct.unpack('<f', struct.pack('<f', x))[0]


def split_sec(sec_text):
    """'59.999000' -> (59, '999000') with 6 fraction digits."""
    q = D(sec_text).quantize(D('0.000001'))
    whole = int(q)
    frac = '%06d' % int((q - whole) * 1000000)
    return whole, frac


def fmt_dec(text, spec):
    """Decimal string formatted with a %-style fixed spec such as '6.2f' (decimal arithmetic, half-even)."""
    return format(D(text), spec)


# ----------------------------------------------------------------------------- CSEP csv
def _csep(records, opts):
    lines = []
    exp = []
    if opts.get('header'):
        lines.append('lon,lat,mag,time_string,depth,catalog_id,event_id')
    for k, r in enumerate(records):
        var = r.get('var', {})
        y, mo, d, h, mi, sec = r['t']
        whole, frac = split_sec(sec)
        assert whole <= 59, 'ISO time strings cannot carry second 60'
        style = var.get('time', 'us6')
        if style == 'none':
            assert int(frac) == 0
            ts = '%04d-%02d-%02dT%02d:%02d:%02d' % (y, mo, d, h, mi, whole)
        elif style == 'ms3':
            assert frac.endswith('000')
            ts = '%04d-%02d-%02dT%02d:%02d:%02d.%s' % (y, mo, d, h, mi, whole, frac[:3])
        elif style == 'unpadded':      # the style of tests/artifacts/test_ascii_catalogs (1992-01-01T0:0:0.0)
            ts = '%04d-%02d-%02dT%d:%d:%d.%s' % (y, mo, d, h, mi, whole, frac.rstrip('0') or '0')
        else:
            ts = '%04d-%02d-%02dT%02d:%02d:%02d.%s' % (y, mo, d, h, mi, whole, frac)
        cat_id = var.get('catalog_id', '0')
        ev_id = var.get('event_id', 'ev%d' % k)
        lines.append(','.join([r['lon'], r['lat'], r['mag'], ts, r['depth'], cat_id, ev_id]))
        exp.append(dict(lon=[float(r['lon'])], lat=[float(r['lat'])], depth=[float(r['depth'])],
                        mag=[float(r['mag'])], t_us=[instant_us(r['t'])], res='ms'))
    eol = '\r\n' if opts.get('crlf') else '\n'
    return eol.join(lines) + eol, exp


# ----------------------------------------------------------------------------- JMA csv
def _jma(records, opts):
    lines = []
    exp = []
    if opts.get('header', True):
        lines.append('timestamp;longitude;latitude;depth;magnitude')
    for r in records:
        y, mo, d, h, mi, sec = r['t']
        whole, frac = split_sec(sec)
        assert whole <= 59
        off = r.get('off', '+0900')
        ts = '%04d-%02d-%02dT%02d:%02d:%02d.%s%s' % (y, mo, d, h, mi, whole, frac, off)
        lines.append(';'.join([ts, r['lon'], r['lat'], r['depth'], r['mag']]))
        exp.append(dict(lon=[float(r['lon'])], lat=[float(r['lat'])], depth=[float(r['depth'])],
                        mag=[float(r['mag'])], t_us=[instant_us(r['t'], off)], res='ms'))
    return '\n'.join(lines) + '\n', exp


# ----------------------------------------------------------------------------- ZMAP
def _decimal_year(t):
    """Decimal year of the written clock reading, rounded DOWN to 8 decimals (so that its integer part is the year)."""
    y = t[0]
    start = (datetime.datetime(y, 1, 1) - EPOCH) // US
    end = (datetime.datetime(y + 1, 1, 1) - EPOCH) // US
    now = instant_us(t)
    if not (start <= now < end):       # second 60 rolling into the next year is not used for ZMAP
        raise AssertionError('clock reading outside its own year')
    frac = (D(now - start) / D(end - start)).quantize(D('0.00000001'), rounding=decimal.ROUND_FLOOR)
    return '%d.%s' % (y, format(frac, 'f').split('.')[1])


def _zmap(records, opts):
    lines = []
    exp = []
    sep = '\t' if opts.get('tabs') else ' '
    for r in records:
        var = r.get('var', {})
        y, mo, d, h, mi, sec = r['t']
        whole, frac = split_sec(sec)
        assert whole <= 59, 'ZMAP carries calendar columns; second 60 is not written'
        ystyle = var.get('year', 'int')
        if ystyle == 'int':
            ytxt = '%d' % y
        elif ystyle == 'float':
            ytxt = '%d.0000' % y
        else:
            ytxt = _decimal_year(r['t'])
        if int(frac) == 0:
            stxt = '%d' % whole if var.get('ints', True) else '%d.0' % whole
        else:
            stxt = '%d.%s' % (whole, frac.rstrip('0'))
        if var.get('ints', True):
            cols = [r['lon'], r['lat'], ytxt, '%d' % mo, '%d' % d, r['mag'], r['depth'], '%d' % h, '%d' % mi, stxt]
        else:
            cols = [r['lon'], r['lat'], ytxt, '%d.0' % mo, '%d.0' % d, r['mag'], r['depth'], '%d.0' % h, '%d.0' % mi, stxt]
        if opts.get('columns', 10) == 13:
            cols += ['1.5', '2.5', '0.1']
        lines.append(sep.join(cols))
        exp.append(dict(lon=[float(r['lon'])], lat=[float(r['lat'])], depth=[float(r['depth'])],
                        mag=[float(r['mag'])], t_us=[instant_us(r['t'])], res='s'))
    return '\n'.join(lines) + '\n', exp


# ----------------------------------------------------------------------------- INGV HORUS
def _horus(records, opts):
    lines = ['Year\tMo\tDa\tHo\tMi\tSe\tLat\tLon\tDepth\tMw\tsigMw\tGeo-Ita\tGeo-CPTI15\t']
    exp = []
    for r in records:
        y, mo, d, h, mi, sec = r['t']
        texts = [fmt_dec(str(v), '20.10f') for v in (y, mo, d, h, mi)]
        texts.append(fmt_dec(sec, '20.10f'))
        fields = {}
        for name in ('lat', 'lon', 'depth', 'mag'):
            fields[name] = fmt_dec(r[name], '20.10f')
        texts += [fields['lat'], fields['lon'], fields['depth'], fields['mag'], fmt_dec('0.2', '20.10f')]
        lines.append('\t'.join(texts) + '\t*\t*\t')
        e = dict(t_us=[instant_us(r['t'])], res='s')
        for name in ('lat', 'lon', 'depth', 'mag'):
            v = float(fields[name])
            e[name] = sorted({v, f32(v)})      # the reader is documented as float32: either precision is accepted
        exp.append(e)
    return '\n'.join(lines) + '\n', exp


# ----------------------------------------------------------------------------- NDK
def _ndk(records, opts):
    lines = []
    exp = []
    for k, r in enumerate(records):
        var = r.get('var', {})
        y, mo, d, h, mi, sec = r['t']
        sec_txt = fmt_dec(sec, '04.1f')
        assert D(sec_txt) == D(sec), 'ndk seconds have one decimal'
        lat = fmt_dec(r['lat'], '6.2f')
        lon = fmt_dec(r['lon'], '7.2f')
        dep = fmt_dec(r['depth'], '5.1f')
        assert len(lat) == 6 and len(lon) == 7 and len(dep) == 5
        # hypocentre line
        l1 = '%-4s %04d/%02d/%02d %02d:%02d:%s %s %s %s %s %s %-24s' % (
            'PDE', y, mo, d, h, mi, sec_txt, lat, lon, dep, '5.0', '0.0', 'SYNTHETIC REGION')
        # CMT info (1)
        name = ('C%04d%02d%02d%02d%02dA' % (y, mo, d, h, mi))[:16]
        l2 = '%-16s %s %s %s' % (name, 'B:%3d%5d%4d S:%3d%5d%4d M:%3d%5d%4d' % (4, 4, 40, 27, 33, 50, 0, 0, 0),
                                 'CMT: 1', 'TRIHD:%5.1f' % 0.6)
        # CMT info (2): centroid
        cen = var.get('centroid', 'same')
        if cen == 'same':
            c_dt, c_lat, c_lon, c_dep = '0.0', lat.strip(), lon.strip(), dep.strip()
        else:
            c_dt, c_lat, c_lon, c_dep = cen      # four decimal strings
        # formal errors of the centroid: small (a blank separates the columns) or filling their fixed-width columns
        e_t, e_la, e_lo, e_d = ('10.5', '10.06', '12.09', '112.5') if var.get('errors') == 'wide' else ('0.9', '0.06', '0.09', '12.5')
        l3 = 'CENTROID: %s%s%s%s%s%s%s%s %-4s %-16s' % (
            fmt_dec(c_dt, '8.1f'), fmt_dec(e_t, '4.1f'), fmt_dec(c_lat, '7.2f'), fmt_dec(e_la, '5.2f'),
            fmt_dec(c_lon, '8.2f'), fmt_dec(e_lo, '5.2f'), fmt_dec(c_dep, '6.1f'), fmt_dec(e_d, '5.1f'),
            'FREE', 'S-20050322125201')
        # CMT info (3): exponent and six tensor elements with errors
        expo, m0 = var.get('moment', [23, '1.312'])
        elems = ['0.838', '0.201', '-0.005', '0.231', '-0.833', '0.270', '1.050', '0.121', '-0.369', '0.161', '0.044',
                 '0.240']
        l4 = '%2d' % expo + ''.join(' ' + fmt_dec(elems[i], '6.3f') + ' ' + fmt_dec(elems[i + 1], '5.3f')
                                    for i in range(0, 12, 2))
        # CMT info (4): principal axes, scalar moment, nodal planes
        axes = ''.join(' %s %2d %3d' % (fmt_dec(v, '7.3f'), p, a)
                       for v, p, a in (('1.581', 56, 12), ('-0.537', 23, 140), ('-1.044', 24, 241)))
        m0_txt = fmt_dec(m0, '7.3f')
        l5 = 'V10' + axes + ' ' + m0_txt + ' ' + '%3d %2d %4d %3d %2d %4d' % (9, 29, 142, 133, 72, 66)
        for ln in (l1, l2, l3, l4, l5):
            assert len(ln) == 80, (len(ln), ln)
        lines += [l1, l2, l3, l4, l5]
        # Mw = 2/3 (log10 M0[N m] - 9.1); M0 = mantissa * 10^(exponent) dyne cm = mantissa * 10^(exponent-7) N m
        mw = 2.0 / 3.0 * (math.log10(float(m0_txt)) + (expo - 7) - 9.1)
        t_hyp = instant_us(r['t'])
        t_cen = t_hyp + int(D(fmt_dec(c_dt, '8.1f')) * 1000000)
        # the format carries a hypocentre and a centroid; the property does not say which one is "the" event:
        # either is accepted for location and for time
        exp.append(dict(lon=sorted({float(lon), float(fmt_dec(c_lon, '8.2f'))}),
                        lat=sorted({float(lat), float(fmt_dec(c_lat, '7.2f'))}),
                        depth=sorted({float(dep), float(fmt_dec(c_dep, '6.1f'))}),
                        mag=[mw], mag_rtol=1e-9,
                        t_us=sorted({t_hyp, t_cen}), res='s'))
    eol = '\n'
    text = eol.join(lines)
    if opts.get('final_newline', True):
        text += eol
    return text, exp


_WRITERS = {'csep-csv': _csep, 'jma-csv': _jma, 'zmap': _zmap, 'ingv_horus': _horus, 'ndk': _ndk}


def write(fmt, records, opts=None):
    return _WRITERS[fmt](records, opts or {})


def expected_times_ms(e):
    out = set()
    for t in e['t_us']:
        out.update(acceptable_times_ms(t, e['res']))
    return sorted(out)
