"""Reference model for time conversions (C15): integer arithmetic on datetime / timedelta only.

Nothing here imports csep.  An instant is an integer number of microseconds (or milliseconds) since
1970-01-01T00:00:00 UTC on the proleptic Gregorian calendar without leap seconds (what `datetime` implements).
No float is used anywhere except where a float is the *input* (a decimal year), and then it is converted to an
exact `fractions.Fraction` first.
"""
import datetime
from fractions import Fraction

UTC = datetime.timezone.utc
EPOCH_AWARE = datetime.datetime(1970, 1, 1, tzinfo=UTC)
EPOCH_NAIVE = datetime.datetime(1970, 1, 1)

US_PER_MS = 1000
US_PER_S = 1000000
US_PER_DAY = 86400 * US_PER_S


def datetime_to_us(dt):
    """Exact microseconds since the epoch of a datetime (naive datetimes are taken as UTC)."""
    if dt.tzinfo is None:
        td = dt - EPOCH_NAIVE
    else:
        td = dt - EPOCH_AWARE            # aware subtraction honours any utcoffset
    return td.days * US_PER_DAY + td.seconds * US_PER_S + td.microseconds


def us_to_datetime(us, aware=True):
    """Datetime of an integer microsecond count (timedelta normalises integers exactly)."""
    base = EPOCH_AWARE if aware else EPOCH_NAIVE
    return base + datetime.timedelta(microseconds=us)


def ms_to_datetime(ms, aware=True):
    """Datetime of an integer millisecond count."""
    base = EPOCH_AWARE if aware else EPOCH_NAIVE
    return base + datetime.timedelta(milliseconds=ms)


def ymd_to_ms(year, month=1, day=1, hour=0, minute=0, second=0):
    us = datetime_to_us(datetime.datetime(year, month, day, hour, minute, second))
    assert us % US_PER_MS == 0
    return us // US_PER_MS


def ms_candidates(us):
    """The integer milliseconds a datetime of `us` microseconds may map to: itself when it is a whole number of
    milliseconds, otherwise the floor or the ceiling (the two integers strictly within one millisecond)."""
    q, r = divmod(us, US_PER_MS)
    return (q,) if r == 0 else (q, q + 1)


def year_span_us(year):
    """(first microsecond of the calendar year, number of microseconds in it)."""
    a = datetime_to_us(datetime.datetime(year, 1, 1))
    b = datetime_to_us(datetime.datetime(year + 1, 1, 1))
    return a, b - a


def exact_decimal_year(us):
    """Calendar-aware year fraction of an instant, as an exact rational."""
    dt = us_to_datetime(us, aware=False)
    a, n = year_span_us(dt.year)
    return dt.year + Fraction(us - a, n)


def exact_instant_of_decimal_year(y):
    """Exact instant (rational microseconds since the epoch) denoted by the float decimal year y."""
    fy = Fraction(y)
    year = fy.numerator // fy.denominator          # floor
    a, n = year_span_us(year)
    return a + (fy - year) * n


def normalise_instant_us(dt):
    """Exact microseconds of whatever datetime the library returned (naive = UTC)."""
    return datetime_to_us(dt)


# ---- formatted strings, produced from integer fields (independent of strftime) ---------------------------------
def _fields(us):
    dt = us_to_datetime(us, aware=False)
    return dt.year, dt.month, dt.day, dt.hour, dt.minute, dt.second, dt.microsecond


def format_seconds(us):
    y, mo, d, h, mi, s, _ = _fields(us)
    return f'{y:04d}-{mo:02d}-{d:02d} {h:02d}:{mi:02d}:{s:02d}'


def string_variants(us):
    """[(variant name, string)] - every way of writing the instant (exactly) that the property names:
    with a fraction (6 digits; 3 digits when it is a whole millisecond), without a fraction (whole seconds only),
    each with and without the '+00:00' suffix."""
    f = _fields(us)[6]
    head = format_seconds(us)
    out = [('fraction6', f'{head}.{f:06d}'), ('fraction6+00:00', f'{head}.{f:06d}+00:00')]
    if f % 1000 == 0:
        out.append(('fraction3', f'{head}.{f // 1000:03d}'))
        out.append(('fraction3+00:00', f'{head}.{f // 1000:03d}+00:00'))
    if f == 0:
        out.append(('no-fraction', head))
        out.append(('no-fraction+00:00', head + '+00:00'))
    # other exact fraction lengths (strptime's %f takes one to six digits); a five-digit fraction is as long as the
    # fraction-free string with '+00:00', a two-digit one as long as ... (equal lengths, different layouts, back to back)
    for nd in (5, 4, 2, 1):
        if f % 10 ** (6 - nd) == 0:
            out.append((f'fraction{nd}', f'{head}.{f // 10 ** (6 - nd):0{nd}d}'))
    return out


MS_1900 = ymd_to_ms(1900)
MS_2200 = ymd_to_ms(2200)
