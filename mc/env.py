"""Owning the random environment: a scripted replacement for the numpy.random entry points pycsep calls."""
import contextlib

import numpy


class Horizon(Exception):
    """The script is exhausted: explicit exploration horizon (e.g. a rejection loop that never terminates)."""


class Script:
    def __init__(self, uniforms=(), poissons=(), choices=()):
        self.uniforms = list(uniforms)
        self.poissons = list(poissons)
        self.choices = list(choices)
        self.log = []          # (function, args, answer)
        self.seeds = []

    def _take(self, q, n, what):
        if len(q) < n:
            raise Horizon(what)
        out, q[:] = q[:n], q[n:]
        return out


@contextlib.contextmanager
def scripted_random(script):
    """Replace numpy.random.{rand,uniform,poisson,choice,seed,random,random_sample} by a deterministic script."""
    r = numpy.random
    saved = {k: getattr(r, k) for k in ('rand', 'uniform', 'poisson', 'choice', 'seed', 'random', 'random_sample')}

    def rand(*shape):
        n = int(numpy.prod(shape)) if shape else 1
        vals = script._take(script.uniforms, n, 'rand')
        script.log.append(('rand', shape, list(vals)))
        if not shape:
            return float(vals[0])
        return numpy.array(vals, dtype=float).reshape(shape)

    def uniform(low=0.0, high=1.0, size=None):
        n = 1 if size is None else int(numpy.prod(size))
        vals = script._take(script.uniforms, n, 'uniform')
        script.log.append(('uniform', (low, high, size), list(vals)))
        vals = [low + (high - low) * v for v in vals]
        if size is None:
            return float(vals[0])
        return numpy.array(vals, dtype=float).reshape(size)

    def random(size=None):
        return uniform(0.0, 1.0, size)

    def poisson(lam=1.0, size=None):
        n = 1 if size is None else int(numpy.prod(size))
        vals = script._take(script.poissons, n, 'poisson')
        script.log.append(('poisson', (float(numpy.asarray(lam).ravel()[0]), size), list(vals)))
        if size is None:
            return int(vals[0])
        return numpy.array(vals, dtype=numpy.int64).reshape(size)

    def choice(a, size=None, replace=True, p=None):
        a = numpy.asarray(a)
        n = 1 if size is None else int(numpy.prod(size))
        idx = script._take(script.choices, n, 'choice')
        script.log.append(('choice', (a.tolist(), None if p is None else numpy.asarray(p).tolist(), size), list(idx)))
        out = a[numpy.array(idx, dtype=int)] if n else a[:0]
        if size is None:
            return out[0]
        return out.reshape(size)

    def seed(s=None):
        script.seeds.append(s)

    r.rand, r.uniform, r.poisson, r.choice, r.seed, r.random, r.random_sample = rand, uniform, poisson, choice, seed, random, random
    try:
        yield script
    finally:
        for k, v in saved.items():
            setattr(r, k, v)


@contextlib.contextmanager
def spy(module, name, record):
    """Harness-side attribute substitution: wrap module.name so every call is recorded via record(args, kwargs, ret)."""
    orig = getattr(module, name)

    def wrapper(*args, **kwargs):
        ret = orig(*args, **kwargs)
        record(args, kwargs, ret)
        return ret
    setattr(module, name, wrapper)
    try:
        yield
    finally:
        setattr(module, name, orig)
