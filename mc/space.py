"""Exhaustive combinatorial generators (no randomness anywhere)."""
import itertools


def multisets(alphabet, min_size, max_size):
    """Every multiset (as a sorted tuple) of size min_size..max_size over the alphabet."""
    for n in range(min_size, max_size + 1):
        yield from itertools.combinations_with_replacement(alphabet, n)


def sequences(alphabet, min_len, max_len):
    for n in range(min_len, max_len + 1):
        yield from itertools.product(alphabet, repeat=n)


def subsets(items, min_size=0, max_size=None):
    items = list(items)
    max_size = len(items) if max_size is None else max_size
    for n in range(min_size, max_size + 1):
        yield from itertools.combinations(items, n)


def permutations(items):
    return itertools.permutations(items)


def assignments(n, alphabet):
    """Every assignment of a letter to each of n positions."""
    return itertools.product(alphabet, repeat=n)


def chunks(iterable, size):
    buf = []
    for x in iterable:
        buf.append(x)
        if len(buf) == size:
            yield buf
            buf = []
    if buf:
        yield buf


TIME_ZONES = ('PST8PDT', 'XNP-5:45')        # POSIX TZ strings: west of Greenwich with daylight saving; east with a 45-minute offset


def with_time_zones(cases, every, zones=TIME_ZONES):
    """All cases (under the harness default UTC0), then every `every`-th case of the same enumeration again under each other
    process time zone (the engine sets TZ for a case that carries 'tz'). The strided subset meets every block of the enumeration."""
    base = []
    for c in cases:
        base.append(c)
        yield c
    for k, tz in enumerate(zones):
        for c in base[k % every::every]:
            yield dict(c, tz=tz)
