"""Exhaustive combinatorial generators (no randomness anywhere)."""
import itertools


def multisets(alphabet, min_size, max_size):
    """Every multiset (as a sorted tuple) of size min_size..max_size over the alphabet."""
    for n in range(min_size, max_size + 1):
        yield from itertools.combinations_with_replacement(alphabet, n)


def sequences(alphabet, min_len, max_len):
    for n in range(min_len, max_len + 1):
        yield from itertools.product(alphabet, repeat=n)


def subsets(items, min_size=0, max_size=None):
    items = list(items)
    max_size = len(items) if max_size is None else max_size
    for n in range(min_size, max_size + 1):
        yield from itertools.combinations(items, n)


def permutations(items):
    return itertools.permutations(items)


def assignments(n, alphabet):
    """Every assignment of a letter to each of n positions."""
    return itertools.product(alphabet, repeat=n)


def chunks(iterable, size):
    buf = []
    for x in iterable:
        buf.append(x)
        if len(buf) == size:
            yield buf
            buf = []
    if buf:
        yield buf
