"""Shared engine: exhaustive case enumeration on the real implementation.

A check module (mc/checks/cXX.py) provides

    ID            property id, e.g. "C09"
    RULE          how cases are enumerated and what makes one non-trivial / distinct
    ASSUMPTIONS   list of strings
    cases(tier, seed)  -> iterable of JSON-serialisable case dicts (deterministic, no sampling)
    run_case(case)     -> dict(
          evals=int,            implementation calls judged in this case
          states=int,           distinct canonical cases / object states inside this case
          transitions=int,      implementation transitions (calls) judged
          nontrivial=int,       distinct non-trivial items inside this case (measured)
          failures=[dict(signature=str, detail=str, case=<replayable case dict>)],
          digest=str,           digest of all observations (determinism re-check)
          counters={name:int},  extra measured counters (summed over cases)
          sets={name:[...]},    extra measured sets (unioned over cases; reported as sizes)
          sample=<any>)         an explicit example of what was explored (optional)
    finish(agg) (optional)  -> extra evidence keys / extra failures computed from aggregated sets

The engine shards cases over worker processes, re-executes a prefix twice to prove determinism,
re-executes every new violation from its replay file in a fresh process, applies the known-findings
file, writes evidence and prints VIOLATION / KNOWN-FINDING lines.
"""
import hashlib
import importlib
import json
import multiprocessing
import os
import subprocess
import sys
import time
import traceback

VERIF = os.path.dirname(os.path.dirname(os.path.abspath(__file__)))
REPO = os.environ.get('VERIF_REPO', '/repo')
KNOWN_FILE = os.path.join(VERIF, 'known_findings.json')


# ----------------------------------------------------------------------------- helpers
def jhash(obj):
    return hashlib.sha1(json.dumps(obj, sort_keys=True, default=repr).encode()).hexdigest()


class Fail(dict):
    """A judged disagreement between implementation and reference model."""
    def __init__(self, signature, detail, case):
        super().__init__(signature=signature, detail=str(detail)[:2000], case=case)


def result(evals=0, states=0, transitions=0, nontrivial=0, failures=None, digest='', counters=None,
           sets=None, sample=None):
    return dict(evals=evals, states=states, transitions=transitions, nontrivial=nontrivial,
                failures=failures or [], digest=digest, counters=counters or {}, sets=sets or {},
                sample=sample)


def load_check(pid):
    return importlib.import_module('mc.checks.' + pid.lower())


def _assert_repo():
    import csep
    here = os.path.realpath(os.path.dirname(os.path.dirname(csep.__file__)))
    want = os.path.realpath(REPO)
    if here != want:
        print(f'HARNESS-ERROR csep imported from {here}, expected {want}')
        sys.exit(3)


_CHECK = None
_PRISTINE = None


def _library_modules():
    return [m for name, m in list(sys.modules.items()) if (name == 'csep' or name.startswith('csep.')) and m is not None]


def _snap_nested(val, depth=0):
    """('dict'|'list'|'set', the object, recursively snapped content) for builtin containers, else ('leaf', val)."""
    if depth < 4 and type(val) is dict:
        return ('dict', val, {k: _snap_nested(v, depth + 1) for k, v in val.items()})
    if depth < 4 and type(val) is list:
        return ('list', val, [_snap_nested(v, depth + 1) for v in val])
    if depth < 4 and type(val) is set:
        return ('set', val, set(val))
    return ('leaf', val, None)


def _restore_nested(snap):
    kind, obj, content = snap
    if kind == 'dict':
        for k in list(obj.keys()):
            if k not in content:
                del obj[k]
        for k, sub in content.items():
            if k not in obj or obj[k] is not sub[1]:
                obj[k] = sub[1]
            _restore_nested(sub)
    elif kind == 'list':
        if len(obj) != len(content) or any(a is not sub[1] for a, sub in zip(obj, content)):
            obj[:] = [sub[1] for sub in content]
        for sub in content:
            _restore_nested(sub)
    elif kind == 'set':
        if obj != content:
            obj.clear()
            obj.update(content)


def _snapshot_library_state():
    """Shallow copies of every module-level dict/list/set of the library, taken once per process before any case runs."""
    global _PRISTINE
    snap = {}
    for m in _library_modules():
        for attr, val in list(vars(m).items()):
            if attr.startswith('__'):
                continue
            if type(val) in (dict, list, set):
                snap[(m.__name__, attr)] = (val, _snap_nested(val))
            elif val is None or isinstance(val, (int, float, str, bool, tuple, bytes)):
                snap[(m.__name__, attr)] = ('plain', val)
            elif type(val).__module__ == 'numpy' and type(val).__name__ == 'ndarray' and val.size <= 200000:
                snap[(m.__name__, attr)] = ('array', val, val.copy())       # module-level lookup tables
    # mutable default arguments of the library's functions and methods (a list/dict/set default is shared between calls)
    defaults = []
    import types
    for m in _library_modules():
        fns = []
        for val in list(vars(m).values()):
            if isinstance(val, types.FunctionType) and val.__module__ == m.__name__:
                fns.append(val)
            elif isinstance(val, type) and val.__module__ == m.__name__:
                for a2, v2 in list(vars(val).items()):
                    f = getattr(v2, '__func__', v2)
                    if isinstance(f, types.FunctionType):
                        fns.append(f)
                    elif type(v2) in (dict, list, set) and not a2.startswith('__'):
                        defaults.append((v2, _snap_nested(v2)))      # class-level containers are shared by all instances
        for f in fns:
            for d in list(f.__defaults__ or ()) + list((f.__kwdefaults__ or {}).values()):
                if type(d) in (dict, list, set):
                    defaults.append((d, _snap_nested(d)))
    snap['__defaults__'] = defaults
    _PRISTINE = snap


def _reset_library_state():
    """Own the library's module-level state: clear functools caches and restore module-level containers, so that a case
    cannot see what an earlier case in the same worker left behind (each case is then reproducible in a fresh process)."""
    if _PRISTINE is None:
        _snapshot_library_state()
        return
    import types
    for d, snap_ in _PRISTINE.get('__defaults__', []):
        _restore_nested(snap_)
    for m in _library_modules():
        for attr, val in list(vars(m).items()):
            key0 = (m.__name__, attr)
            if key0 in _PRISTINE and _PRISTINE[key0][0] == 'plain' and not attr.startswith('__'):
                # a module-level plain variable (None, number, string, tuple) that was re-bound since the process started
                if val is not _PRISTINE[key0][1] and not isinstance(val, (types.ModuleType, types.FunctionType, type)):
                    try:
                        setattr(m, attr, _PRISTINE[key0][1])
                    except Exception:
                        pass
                continue
            if key0 in _PRISTINE and _PRISTINE[key0][0] == 'array' and not attr.startswith('__'):
                _, orig, content = _PRISTINE[key0]
                try:
                    if orig.shape == content.shape and orig.flags.writeable:
                        orig[...] = content
                    if val is not orig:
                        setattr(m, attr, orig if orig.shape == content.shape else content.copy())
                except Exception:
                    pass
                continue
            cc = getattr(val, 'cache_clear', None)
            if callable(cc):
                try:
                    cc()
                except Exception:
                    pass
            elif type(val) in (dict, list, set) and not attr.startswith('__'):
                key = (m.__name__, attr)
                if key in _PRISTINE and _PRISTINE[key][0] is val:
                    _restore_nested(_PRISTINE[key][1])


def _init_worker(pid):
    global _CHECK
    import warnings
    warnings.filterwarnings('ignore')
    _CHECK = load_check(pid)
    import csep  # noqa: F401
    _snapshot_library_state()
    _limit_memory()
    # numpy global RNG state unrelated to anything under test
    import numpy
    numpy.random.seed(987654321)
    devnull = open(os.devnull, 'w')
    sys.stdout = devnull   # library prints are discarded in workers


class CaseTimeout(BaseException):
    """A case ran longer than the per-case wall limit (never the case on the unchanged tree; a change that makes the library
    allocate or loop without bound must not hang the check)."""


def _limit_memory():
    """Address-space cap per process (default 8 GiB, VERIF_MEM_LIMIT_GB): a runaway allocation in the library becomes a
    MemoryError inside the case (a recorded, replayable failure) instead of an out-of-memory kill of a worker."""
    try:
        import resource
        gb = float(os.environ.get('VERIF_MEM_LIMIT_GB', '8') or 0)
        if gb > 0:
            cap = int(gb * 2 ** 30)
            soft, hard = resource.getrlimit(resource.RLIMIT_AS)
            if hard != resource.RLIM_INFINITY:
                cap = min(cap, hard)
            resource.setrlimit(resource.RLIMIT_AS, (cap, hard))
    except Exception:
        pass


def _case_limit():
    return int(float(os.environ.get('VERIF_CASE_TIMEOUT', '900') or 0))


def _alarm(signum, frame):
    raise CaseTimeout()


def call_case(check, case):
    """run_case with the process time zone owned by the harness: UTC0 unless the case carries a 'tz' (POSIX TZ string), in
    which case it is set around the call and stamped on the replay case of every failure."""
    tz = case.get('tz') if isinstance(case, dict) else None
    os.environ['TZ'] = tz or 'UTC0'
    time.tzset()
    try:
        r = check.run_case(case)
    finally:
        os.environ['TZ'] = 'UTC0'
        time.tzset()
    if tz:
        for f in r.get('failures', []):
            if isinstance(f.get('case'), dict) and 'tz' not in f['case']:
                f['case'] = dict(f['case'], tz=tz)
    return r


def _run_one(args):
    idx, case = args
    t0 = time.time()
    import signal
    lim = _case_limit()
    try:
        if lim:
            signal.signal(signal.SIGALRM, _alarm)
            signal.alarm(lim)
        _reset_library_state()
        r = call_case(_CHECK, case)
    except CaseTimeout:
        r = result(failures=[], digest='TIMEOUT')
        r['harness_error'] = f'case exceeded the per-case wall limit of {lim} s: {str(case)[:300]}'
    except Exception as e:  # a crash of the harness itself is a harness error, not a violation
        r = result(failures=[], digest='EXC')
        r['harness_error'] = f'{type(e).__name__}: {e}\n{traceback.format_exc()[-1500:]}'
    finally:
        if lim:
            signal.alarm(0)
    r['idx'] = idx
    r['wall'] = time.time() - t0
    for f in r.get('failures', []):
        f['origin'] = idx
    return r


def load_known(pid):
    if not os.path.exists(KNOWN_FILE):
        return {}, {}
    data = json.load(open(KNOWN_FILE))
    known, fixed = {}, {}
    for e in data.get('findings', []):
        if e.get('property') != pid:
            continue
        (known if e.get('status') == 'known' else fixed)[e['signature']] = e
    return known, fixed


def _match_known(sig, known):
    """An entry matches a signature exactly, or as an fnmatch pattern (only '*' is special)."""
    import fnmatch
    if sig in known:
        return known[sig]
    for k, e in known.items():
        if '*' in k and fnmatch.fnmatchcase(sig, k.replace('[', '[[]')):
            return e
    return None


# ----------------------------------------------------------------------------- replay
def replay(pid, path):
    check = load_check(pid)
    _assert_repo()
    rec = json.load(open(path))
    import csep  # noqa: F401
    _limit_memory()
    _reset_library_state()
    r = call_case(check, rec['case'])
    sigs = [f['signature'] for f in r['failures']]
    if rec['signature'] in sigs:
        f = [f for f in r['failures'] if f['signature'] == rec['signature']][0]
        print(f'REPLAY-FAILS property={pid} signature={rec["signature"]}')
        print('  ' + f['detail'])
        return 1
    print(f'REPLAY-PASSES property={pid} signature={rec["signature"]} (other failures: {sigs[:3]})')
    return 0


def digests(pid, tier, seed, idxs):
    """Print {index: digest} for the given case indices (used by the cross-process determinism proof)."""
    global _CHECK
    _init_worker(pid)
    sys.stdout = sys.__stdout__
    _assert_repo()
    cases = list(_CHECK.cases(tier, seed))
    out = {}
    for i in idxs:
        if i < len(cases):
            out[str(i)] = _run_one((i, cases[i]))['digest']
    print('DIGESTS ' + json.dumps(out))
    return 0


def _replay_subprocess(pid, path):
    try:
        p = subprocess.run([sys.executable, '-B', '-W', 'ignore', os.path.join(VERIF, 'mc', 'run.py'), pid, '--replay', path],
                           capture_output=True, text=True, env=dict(os.environ, PYTHONHASHSEED='0'), timeout=(_case_limit() or 3600) + 300)
    except subprocess.TimeoutExpired:
        return False
    return p.returncode == 1


# ----------------------------------------------------------------------------- main run
def run(pid, tier, seed, workers=None, max_cases=None):
    t_start = time.time()
    check = load_check(pid)
    _assert_repo()
    workers = workers or int(os.environ.get('VERIF_WORKERS', '0')) or min(16, os.cpu_count() or 1)
    time_cap = float(os.environ.get('VERIF_TIME_CAP', '0') or 0)

    cases = list(check.cases(tier, seed))
    if max_cases:
        cases = cases[:max_cases]
    case_hashes = [jhash(c) for c in cases]
    n_distinct_cases = len(set(case_hashes))

    ctx = multiprocessing.get_context('fork')
    agg = dict(evals=0, states=0, transitions=0, nontrivial=0, counters={}, sets={}, samples=[],
               failures=[], harness_errors=[], digests={})
    capped = False
    done = 0
    chunk = max(1, min(64, len(cases) // (workers * 8) or 1))
    with ctx.Pool(workers, initializer=_init_worker, initargs=(pid,)) as pool:
        it = pool.imap(_run_one, list(enumerate(cases)), chunksize=1)     # chunksize 1: an IMapIterator, whose next() takes a timeout
        lost = False
        wait = (_case_limit() or 3600) + 300
        while True:
            try:
                r = it.next(timeout=wait)
            except StopIteration:
                break
            except multiprocessing.TimeoutError:
                # a worker died without delivering its result (killed by the kernel, hard crash of an extension module)
                agg['harness_errors'].append((done, f'no result within {wait} s after {done} completed cases: a worker process was lost'))
                lost = capped = True
                pool.terminate()
                break
            done += 1
            agg['evals'] += int(r['evals'])
            agg['states'] += int(r['states'])
            agg['transitions'] += int(r['transitions'])
            agg['nontrivial'] += int(r['nontrivial'])
            for k, v in r['counters'].items():
                agg['counters'][k] = agg['counters'].get(k, 0) + (int(v) if float(v) == int(v) else float(v))
            for k, v in r['sets'].items():
                agg['sets'].setdefault(k, set()).update(map(_freeze, v))
            agg['digests'][r['idx']] = r['digest']
            if r.get('harness_error'):
                agg['harness_errors'].append((r['idx'], r['harness_error']))
            for f in r['failures']:
                agg['failures'].append(f)
            if r.get('sample') is not None and (r['idx'] in (0, len(cases) // 2, len(cases) - 1)):
                agg['samples'].append(r['sample'])
            if time_cap and time.time() - t_start > time_cap:
                capped = True
                pool.terminate()
                break

        # determinism proof (a): re-execute a prefix (and a stride) in the workers again
        recheck_idx = sorted(set(list(range(min(len(cases), 40))) +
                                 list(range(0, len(cases), max(1, len(cases) // 40)))))
        n_recheck = 0
        nondet = []
        if not capped:
            for r in pool.imap(_run_one, [(i, cases[i]) for i in recheck_idx], chunksize=4):
                n_recheck += 1
                if r['digest'] != agg['digests'].get(r['idx']):
                    nondet.append(r['idx'])

    # determinism proof (c): a slice re-executed in a second process with a different hash seed (thorough tier; 1 % of cases)
    n_cross = 0
    if tier == 'thorough' and not capped and cases:
        idxs = sorted(set(range(0, len(cases), max(1, len(cases) // max(1, min(40, len(cases) // 100 or 1))))))[:40]
        env2 = dict(os.environ, PYTHONHASHSEED='4242', VERIF_KEEP_HASHSEED='1')
        p = subprocess.run([sys.executable, '-B', '-W', 'ignore', os.path.join(VERIF, 'mc', 'run.py'), pid, '--tier', tier,
                            '--digests', ','.join(map(str, idxs))], capture_output=True, text=True, env=env2)
        line = [l for l in p.stdout.splitlines() if l.startswith('DIGESTS ')]
        if line:
            other = json.loads(line[0][8:])
            for k, d in other.items():
                n_cross += 1
                if agg['digests'].get(int(k)) != d:
                    nondet.append(int(k))
    _cleanup_work()
    if not agg['samples'] and cases:
        agg['samples'] = [cases[0], cases[len(cases) // 2], cases[-1]]

    extra = {}
    if hasattr(check, 'finish'):
        fin = check.finish(agg, tier) or {}
        extra = fin.get('evidence', {})
        agg['failures'].extend(fin.get('failures', []))

    # ---- classify failures
    known, fixed = load_known(pid)
    by_sig = {}
    for f in agg['failures']:
        by_sig.setdefault(f['signature'], []).append(f)
    known_hit, new = {}, {}
    for sig, fs in by_sig.items():
        e = _match_known(sig, known)
        if e is not None:
            known_hit[sig] = (e, fs)
        else:
            new[sig] = fs

    lines = []
    exit_code = 0
    for sig, (e, fs) in sorted(known_hit.items()):
        lines.append(f'KNOWN-FINDING: property={pid} {e["what"]} [signature={sig}; {len(fs)} case(s) this run]')

    replay_dir = os.path.join(os.environ.get('VERIF_REPLAY_DIR') or os.path.join(VERIF, 'replays'), pid)
    verified = 0
    for sig, fs in sorted(new.items()):
        os.makedirs(replay_dir, exist_ok=True)
        f = fs[0]
        rec = dict(property=pid, signature=sig, detail=f['detail'][:4000], case=f['case'], tier=tier, seed=seed,
                   n_cases_with_signature=len(fs))
        path = os.path.join(replay_dir, jhash([sig, f['case']])[:16] + '.json')
        with open(path, 'w') as fh:
            json.dump(rec, fh, indent=1, default=repr)
        # determinism proof (b): must reproduce in a fresh process before it is reported
        ok = True
        if verified < 8:
            verified += 1
            ok = _replay_subprocess(pid, path)
            if not ok and f.get('origin') is not None and f['origin'] < len(cases):
                # the minimal case does not fail on its own: the failure may need the sequence of calls of the whole
                # originating case (state carried between calls). Replay that whole case in a fresh process instead.
                rec2 = dict(rec, case=cases[f['origin']], note='minimal case did not reproduce alone; this is the whole originating case')
                path2 = os.path.join(replay_dir, jhash([sig, 'origin', f['origin']])[:16] + '.json')
                with open(path2, 'w') as fh:
                    json.dump(rec2, fh, indent=1, default=repr)
                if _replay_subprocess(pid, path2):
                    ok = True
                    path = path2
        if not ok:
            lines.append(f'NONDETERMINISM property={pid} signature={sig} replay={path} did not reproduce in a fresh process')
            exit_code = max(exit_code, 2)
        else:
            lines.append(f'VIOLATION property={pid} replay={path}')
            lines.append(f'  signature={sig} cases={len(fs)} detail={f["detail"][:400]}')
            exit_code = max(exit_code, 1)
        fx = _match_known(sig, fixed)
        if fx is not None:
            lines.append(f'  (this signature is recorded as fixed by {fx.get("commit")}: the defect has returned)')

    confirmed = (exit_code == 1)
    if agg['harness_errors']:
        idx, msg = agg['harness_errors'][0]
        lines.append(f'HARNESS-ERROR property={pid} case_index={idx} ({len(agg["harness_errors"])} case(s)): {msg}')
        exit_code = max(exit_code, 3)
    if nondet:
        lines.append(f'NONDETERMINISM property={pid} digests differ on re-execution of cases {nondet[:10]}')
        exit_code = max(exit_code, 2)
    if confirmed and not [l for l in lines if l.startswith('NONDETERMINISM')]:
        exit_code = 1       # a violation that reproduced in a fresh process stands, whatever else went wrong in other cases

    wall = time.time() - t_start
    cov = dict(
        states=agg['states'], transitions=agg['transitions'],
        traces_validated_against_impl=agg['transitions'],
        evaluations=agg['evals'], distinct_nontrivial=agg['nontrivial'],
        rule=check.RULE, samples=_jsonable(agg['samples'][:4]),
        exhaustive=(not capped), cases=len(cases), distinct_cases=n_distinct_cases, cases_completed=done,
        determinism_rechecks=n_recheck, determinism_mismatches=len(nondet), cross_process_hashseed_rechecks=n_cross,
        known_findings_hit=sorted(known_hit), new_violation_signatures=sorted(new),
        counters=agg['counters'], set_sizes={k: len(v) for k, v in agg['sets'].items()},
        workers=workers,
    )
    if capped:
        cov['time_cap_s'] = time_cap
    cov.update(extra)
    ev = dict(property_id=pid, tier=tier, seed=seed, level='model_checking', coverage=cov,
              assumptions=list(getattr(check, 'ASSUMPTIONS', [])), wall_s=round(wall, 3),
              violations=len(new))
    ev_dir = os.environ.get('VERIF_EVIDENCE_DIR') or os.path.join(VERIF, 'evidence')
    os.makedirs(ev_dir, exist_ok=True)
    with open(os.path.join(ev_dir, pid + '.json'), 'w') as fh:
        json.dump(ev, fh, indent=1, default=_json_default)
        fh.write('\n')

    print(f'[{pid}] tier={tier} seed={seed} cases={len(cases)} (distinct {n_distinct_cases}) evals={agg["evals"]} '
          f'states={agg["states"]} transitions={agg["transitions"]} nontrivial={agg["nontrivial"]} '
          f'known={len(known_hit)} new={len(new)} rechecks={n_recheck} wall={wall:.1f}s exhaustive={not capped}')
    for k, v in sorted(cov['counters'].items()):
        print(f'    counter {k} = {v}')
    for k, v in sorted(cov['set_sizes'].items()):
        print(f'    |{k}| = {v}')
    for ln in lines:
        print(ln)
    sys.stdout.flush()
    return exit_code


def _cleanup_work():
    """Remove per-process scratch directories under /verif/.work whose owning process is gone."""
    import shutil
    base = os.path.join(VERIF, '.work')
    if not os.path.isdir(base):
        return
    for name in os.listdir(base):
        if not name.isdigit():
            continue
        try:
            os.kill(int(name), 0)
            alive = True
        except ProcessLookupError:
            alive = False
        except PermissionError:
            alive = True
        if not alive:
            shutil.rmtree(os.path.join(base, name), ignore_errors=True)


def _freeze(x):
    if isinstance(x, list):
        return tuple(_freeze(i) for i in x)
    return x


def _json_default(o):
    try:
        import numpy
        if isinstance(o, numpy.integer):
            return int(o)
        if isinstance(o, numpy.floating):
            return float(o)
        if isinstance(o, numpy.bool_):
            return bool(o)
        if isinstance(o, numpy.ndarray):
            return o.tolist()
    except ImportError:
        pass
    if isinstance(o, (set, frozenset)):
        return sorted(o, key=repr)
    return repr(o)


def _jsonable(x):
    return json.loads(json.dumps(x, default=_json_default))
