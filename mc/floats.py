"""Float neighbourhoods and exactly rounded decimal grids."""
import decimal
import numpy


def window(x, k, dtype=numpy.float64):
    """All floats of dtype within +-k ulps of x (2k+1 values, increasing)."""
    x = dtype(x)
    out = [x]
    lo = x
    hi = x
    for _ in range(k):
        lo = numpy.nextafter(lo, dtype(-numpy.inf), dtype=dtype)
        hi = numpy.nextafter(hi, dtype(numpy.inf), dtype=dtype)
        out.insert(0, lo)
        out.append(hi)
    return numpy.array(out, dtype=dtype)


def window_vec(xs, k):
    """Array of shape (len(xs), 2k+1): float64 values within +-k ulps of each x, increasing per row.

    Uses the integer representation of IEEE doubles (monotone for same-sign values); falls back to
    nextafter stepping for rows that cross zero.
    """
    xs = numpy.asarray(xs, dtype=numpy.float64)
    out = numpy.empty((xs.size, 2 * k + 1), dtype=numpy.float64)
    offs = numpy.arange(-k, k + 1, dtype=numpy.int64)
    bits = xs.view(numpy.int64)
    for i, (x, b) in enumerate(zip(xs, bits)):
        if x > 0 and b - k > 0:
            out[i] = (b + offs).view(numpy.float64)
        elif x < 0 and (b & 0x7fffffffffffffff) - k > 0:
            # negative floats: larger magnitude = larger int representation = smaller value
            out[i] = (b - offs).view(numpy.float64)
        else:
            out[i] = window(x, k)
    return out


def decimal_grid(start, step, k):
    """The float64 nearest to the decimal number start + k*step (start/step given as strings or
    floats whose shortest repr is the intended decimal)."""
    s = decimal.Decimal(repr(float(start))) if not isinstance(start, str) else decimal.Decimal(start)
    h = decimal.Decimal(repr(float(step))) if not isinstance(step, str) else decimal.Decimal(step)
    return float(s + h * k)


def ulps_between(a, b):
    a = numpy.float64(a)
    b = numpy.float64(b)

    def key(x):
        i = int(numpy.float64(x).view(numpy.int64))
        return i if i >= 0 else -(i & 0x7fffffffffffffff)
    return key(b) - key(a)
