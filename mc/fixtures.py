"""Builders of real pycsep objects used by several checks (harness side, no oracle logic here)."""
import atexit
import datetime
import os
import shutil

import numpy

VERIF = os.path.dirname(os.path.dirname(os.path.abspath(__file__)))
_WORK = None


def workdir():
    """Per-process scratch directory under /verif/.work (never /tmp); removed at exit."""
    global _WORK
    d = os.path.join(VERIF, '.work', str(os.getpid()))
    if _WORK != d:
        os.makedirs(d, exist_ok=True)
        _WORK = d
        atexit.register(shutil.rmtree, d, ignore_errors=True)
    return d


def cartesian_region(origins, dh, magnitudes=None, mask=None, name='verif'):
    """CartesianGrid2D from a list of (lon, lat) cell origins, in the given order."""
    from csep.core.regions import CartesianGrid2D, compute_vertices
    from csep.models import Polygon
    polys = [Polygon(b) for b in compute_vertices([tuple(o) for o in origins], dh)]
    reg = CartesianGrid2D(polys, dh, mask=mask, magnitudes=None if magnitudes is None else numpy.array(magnitudes),
                          name=name)
    return reg


def catalog(events, region=None, catalog_id=None, name='obs', **kw):
    """CSEPCatalog from event tuples (id, origin_time_ms, lat, lon, depth, mag)."""
    from csep.core.catalogs import CSEPCatalog
    return CSEPCatalog(data=[tuple(e) for e in events], region=region, catalog_id=catalog_id, name=name, **kw)


def gridded_forecast(rates, region, magnitudes, name='fc', start=None, end=None):
    from csep.core.forecasts import GriddedForecast
    if isinstance(rates, numpy.ndarray) and rates.dtype == numpy.float32:
        data = rates.copy(order='K')               # single-precision storage is kept as given
    else:
        data = numpy.array(rates, dtype=float)
    return GriddedForecast(start_time=start, end_time=end, data=data, region=region,
                           magnitudes=numpy.array(magnitudes), name=name)


EPOCH = datetime.datetime(1970, 1, 1)


def ms_to_timestring(ms, fraction=True):
    dt = EPOCH + datetime.timedelta(milliseconds=int(ms))
    s = dt.strftime('%Y-%m-%dT%H:%M:%S')
    if fraction:
        s += '.%06d' % dt.microsecond
    return s


def write_forecast_csv(path, catalogs, placeholder=None, header=False, fraction=True, blank_event_id=False):
    """Write a catalog-forecast CSV.

    catalogs: list (index = catalog id) of event-tuple lists.
    placeholder: list of bools per catalog; for an EMPTY catalog True = placeholder row, False = omitted
                 (the final catalog always gets a row when empty).
    """
    n = len(catalogs)
    placeholder = placeholder or [True] * n
    lines = []
    if header:
        lines.append('lon,lat,mag,time_string,depth,catalog_id,event_id')
    for cid, evs in enumerate(catalogs):
        if not evs:
            if placeholder[cid] or cid == n - 1:
                lines.append(f',,,,,{cid},')
            continue
        for (eid, ms, lat, lon, depth, mag) in evs:
            lines.append(f'{lon!r},{lat!r},{mag!r},{ms_to_timestring(ms, fraction)},{depth!r},{cid},'
                         f'{"" if blank_event_id else eid}')
    with open(path, 'w', newline='') as fh:
        fh.write('\n'.join(lines) + '\n')
    return path


def events_of(cat):
    """Canonical python form of a catalog's events: list of (id:str, ms:int, lat, lon, depth, mag)."""
    out = []
    for row in cat.catalog.tolist():
        eid = row[0]
        if isinstance(eid, bytes):
            eid = eid.decode('utf-8')
        out.append((str(eid), int(row[1]), float(row[2]), float(row[3]), float(row[4]), float(row[5])))
    return out


def norm(x):
    """JSON-friendly normal form of numbers/arrays/tuples for comparison and hashing (NaN -> 'nan')."""
    import math
    if x is None or isinstance(x, (str, bool)):
        return x
    if isinstance(x, (numpy.ndarray,)):
        return [norm(v) for v in x.tolist()]
    if isinstance(x, (list, tuple)):
        return [norm(v) for v in x]
    if isinstance(x, (numpy.integer, int)):
        return int(x)
    if isinstance(x, (numpy.floating, float)):
        x = float(x)
        if math.isnan(x):
            return 'nan'
        if math.isinf(x):
            return 'inf' if x > 0 else '-inf'
        return x
    if isinstance(x, numpy.bool_):
        return bool(x)
    return repr(x)


def close(a, b, rtol=1e-10, atol=1e-12):
    """Structural comparison of two norm()-ed values with float tolerance."""
    if isinstance(a, list) and isinstance(b, list):
        return len(a) == len(b) and all(close(x, y, rtol, atol) for x, y in zip(a, b))
    if isinstance(a, bool) or isinstance(b, bool) or isinstance(a, str) or isinstance(b, str) or a is None or b is None:
        return a == b
    if isinstance(a, (int, float)) and isinstance(b, (int, float)):
        return abs(a - b) <= atol + rtol * max(abs(a), abs(b))
    return a == b


# ----------------------------------------------------------------------------- small space-magnitude setups
def grid_setup(n_cells, n_mags, dh=0.1):
    """Region of n_cells cells in a 2-column layout (row-major) and n_mags unit-wide magnitude bins from 5.0."""
    ncol = 2 if n_cells > 1 else 1
    origins = [(round(dh * (i % ncol), 10), round(dh * (i // ncol), 10)) for i in range(n_cells)]
    mags = [5.0 + k for k in range(n_mags)]
    reg = cartesian_region(origins, dh, magnitudes=mags)
    return reg, origins, mags


def events_from_counts(counts, origins, mags, dh=0.1, t0=1262304000000):
    """counts[cell][magbin] -> event tuples at cell centres / bin midpoints (id, ms, lat, lon, depth, mag)."""
    evs = []
    i = 0
    for c, row in enumerate(counts):
        for k, n in enumerate(row):
            for _ in range(int(n)):
                evs.append((f'e{i}', t0 + 1000 * i, origins[c][1] + dh / 2, origins[c][0] + dh / 2, 10.0, mags[k] + 0.5))
                i += 1
    return evs
