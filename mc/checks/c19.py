"""C19 Catalog readers decode every well-formed record of each supported format.

Files in the five text formats (CSEP CSV, JMA CSV, ZMAP, INGV HORUS, NDK) are written by the reference writers of
mc/ref/ref_codec_catalogs.py from an explicit record alphabet, loaded with the REAL `csep.load_catalog(type=...)`, and
every loaded catalog is compared event by event with the intended decoding of what was written.
"""
import contextlib
import hashlib
import itertools
import os

from mc import space
from mc.engine import Fail, result
from mc.ref import ref_codec_catalogs as rc

ID = 'C19'
RULE = ('per format (CSEP CSV, JMA CSV, ZMAP, HORUS, NDK), files written by the reference writers and loaded with '
        'csep.load_catalog(type=...): (1) EVERY one-record file over the full product alphabet = 6 longitudes x 4 latitudes '
        'x 3 depths x 3 magnitudes (thorough 9 x 6 x 4 x 4) x every time letter the format can carry (19 letters: plain, '
        'all-fields-distinct, second 59.999, second 60 at minute 30 / minute 59 / 23:59, day end, leap day, into leap day, '
        'into March, year end, into new year, epoch, pre-1970, 1919 fixture time, year start, post-2038 ms, pre-1901 ms, '
        'sub-millisecond) x per-record optional-column variants (CSEP time style us6/ms3/none/unpadded, blank event id, '
        'blank catalog id; ZMAP year int/NNNN.0000/decimal, float calendar columns; NDK centroid equal/different) x JMA '
        'offsets {+0900,+0000,-0330}, under every file option (header yes/no, CRLF, ZMAP 10|13 columns, tabs, NDK final '
        'newline), plus the doubled file [X,X] (quick: default file option, thorough: every option); (2) every ordered '
        'pair of distinct letters of a medium alphabet (every time letter x offset, thorough also x variant; coordinates '
        'rotating); (3) every triple with repetition over a reduced alphabet (6 | 10 time letters); (4) structured long '
        'files: all 60 seconds, 60 minutes, 24 hours, first and last day of all 24 months of a leap and a common year, 120 '
        'consecutive minutes each with second 60, 60 seconds with a quarter-second fraction, 5000 (thorough 30000) records, all 1000 millisecond phases of 2 | 5 seconds for the millisecond formats; '
        '(5) the clock letters on another calendar day (quick: the day selected by VERIF_SEED, thorough: all 4 days) as '
        'singles, doubles and all ordered pairs. Files are distinct by construction (measured again as distinct_files). '
        'A file is non-trivial iff it has >= 2 records, a non-default file option, or a record with one of: second written '
        'as 60, non-UTC offset, instant before 1970, leap day, fractional second, negative coordinate, a non-default '
        'optional-column variant.')
ASSUMPTIONS = [
    'well-formed = produced by the reference writers, which follow the format descriptions in the reader docstrings and '
    'the fixture files under tests/artifacts (JMA test.csv, HORUS_Ita_Catalog.txt, test_ascii_catalogs) and the Global '
    'CMT ndk column description quoted in readers.ndk',
    'second 60 is written only where the format can carry it: NDK (hh:mm:60.0) and HORUS (the fixture has Se>=60); ISO '
    'time strings (CSEP, JMA) and the ZMAP calendar columns are written with seconds 0..59',
    'ZMAP seconds are written as whole numbers (reader docstring: int32 seconds); the year column is written as an '
    'integer, as NNNN.0000 or as a decimal year whose integer part is the year; the oracle takes the instant from the '
    'explicit month/day/hour/minute/second columns and the integer part of the year column',
    'origin time accepted = encoded instant rounded down or to nearest at the format resolution (ms: CSEP, JMA; s: ZMAP, '
    'HORUS, NDK; a second-resolution reader may also keep milliseconds)',
    'HORUS values accepted at float64 or float32 precision (reader documented float32); NDK magnitude = 2/3(log10 M0 - '
    '9.1) to rtol 1e-9; NDK carries hypocentre and centroid: either location / either time is accepted',
    'event ids and catalog ids are not judged (the property does not mention them)',
    'a 1-ms-low (post-2038) / 1-ms-high (pre-1901) origin time that equals int(1000.0*float_seconds) is labelled '
    'float-truncation (defect of time_utils.datetime_to_utc_epoch owned by C15) and kept apart from reader defects',
]

READER = {'csep-csv': 'csep_ascii', 'jma-csv': 'jma_csv', 'zmap': 'zmap_ascii', 'ingv_horus': 'ingv_horus', 'ndk': 'ndk'}
SITE = {k: 'csep.utils.readers.' + v for k, v in READER.items()}

# ----------------------------------------------------------------------------- alphabets
LONS = ['-179.99', '179.99', '-0.01', '0.01', '0', '12.345']
LATS = ['-89.99', '89.99', '0', '45.5']
DEPTHS = ['0', '10.5', '699.9']
MAGS = ['0.1', '5.25', '9.5', '7.75']
MOMENTS = [[20, '0.001'], [23, '1.312'], [29, '5.300'], [25, '531.200']]      # NDK: magnitude is carried by exponent + scalar moment
# thorough adds these letters to the full product (quick letters stay a prefix, so thorough is a strict superset)
LONS_T = LONS + ['-180', '180', '-122.42']
LATS_T = LATS + ['-90', '90']
DEPTHS_T = DEPTHS + ['-1.5']
MAGS_T = MAGS + ['-1.2']
MOMENTS_T = MOMENTS + [[19, '0.016']]
OFFSETS = ['+0900', '+0000', '-0330']
CENTROIDS = ['same', ['7.5', '12.50', '-45.25', '33.0']]

# time letters: (name, [y, mo, d, h, mi, 'sec'], needs second 60)
TIMES = [
    ('plain', [2010, 6, 15, 12, 30, '0'], False),
    ('distinct-fields', [2003, 4, 5, 6, 7, '8.25'], False),
    ('second-59.999', [2010, 6, 15, 12, 30, '59.999'], False),
    ('second-59.25', [2010, 6, 15, 12, 30, '59.25'], False),
    ('second-60', [2010, 6, 15, 12, 30, '60'], True),
    ('minute-59-second-60', [2010, 6, 15, 12, 59, '60'], True),
    ('hour-23-second-60', [2010, 6, 15, 23, 59, '60'], True),
    ('day-end', [2010, 6, 15, 23, 59, '59.999'], False),
    ('leap-day', [2000, 2, 29, 12, 0, '0.5'], False),
    ('into-leap-day', [2000, 2, 28, 23, 59, '60'], True),
    ('into-march', [2001, 2, 28, 23, 59, '60'], True),
    ('year-end', [1999, 12, 31, 23, 59, '59'], False),
    ('into-new-year', [1999, 12, 31, 23, 59, '60'], True),
    ('epoch', [1970, 1, 1, 0, 0, '0'], False),
    ('pre-1970', [1969, 12, 31, 23, 59, '59.999'], False),
    ('fixture-1919', [1919, 11, 10, 22, 31, '3.59'], False),
    ('year-start', [2021, 1, 1, 0, 0, '0'], False),
    ('post-2038-ms', [2038, 7, 9, 4, 52, '37.055'], False),
    ('pre-1901-ms', [1901, 3, 4, 5, 6, '7.004'], False),
    ('sub-ms', [2010, 6, 15, 12, 30, '3.5906'], False),
]
REDUCED = ['plain', 'second-60', 'hour-23-second-60', 'day-end', 'leap-day', 'pre-1970', 'into-new-year', 'post-2038-ms',
           'distinct-fields', 'fixture-1919']
REDUCED_QUICK = ['plain', 'second-60', 'hour-23-second-60', 'day-end', 'leap-day', 'pre-1970']
CAN_60 = {'ndk', 'ingv_horus'}
# seed-selected extra blocks (quick: one, thorough: all): the clock letters on another calendar day
EXTRA_DAYS = [[1985, 3, 10], [2024, 2, 29], [2038, 1, 19], [1901, 12, 13]]
CLOCKS = [(12, 30, '0'), (0, 0, '0.001'), (12, 30, '60'), (12, 59, '60'), (23, 59, '60'), (23, 59, '59.999'), (3, 14, '7.5')]


def adapt_seconds(fmt, sec):
    """The second text as the format can carry it (documented in ASSUMPTIONS)."""
    if fmt == 'ndk':            # one decimal, cut
        return sec if '.' not in sec else sec[:sec.index('.') + 2]
    if fmt == 'zmap':           # whole seconds
        return sec.split('.')[0]
    return sec


def time_letters(fmt):
    out = []
    seen = set()
    for name, t, needs60 in TIMES:
        if needs60 and fmt not in CAN_60:
            continue
        t = list(t[:5]) + [adapt_seconds(fmt, t[5])]
        if tuple(t) in seen:
            continue
        seen.add(tuple(t))
        out.append((name, t))
    return out


def variants(fmt):
    """Per-record optional-column variants (first = default)."""
    if fmt == 'csep-csv':
        return [{}, {'time': 'ms3'}, {'time': 'none'}, {'time': 'unpadded'}, {'event_id': ''}, {'catalog_id': ''},
                {'event_id': '', 'catalog_id': ''}]
    if fmt == 'zmap':
        return [{}, {'year': 'float'}, {'year': 'decimal'}, {'ints': False}]
    if fmt == 'ndk':
        return [{}, {'centroid': CENTROIDS[1]}, {'errors': 'wide'}]
    return [{}]


def file_options(fmt):
    """File-level options (first = default)."""
    if fmt == 'csep-csv':
        return [{'header': True}, {'header': False}, {'header': True, 'crlf': True}]
    if fmt == 'jma-csv':
        return [{'header': True}, {'header': False}]
    if fmt == 'zmap':
        return [{'columns': 10}, {'columns': 13}, {'columns': 13, 'tabs': True}]
    if fmt == 'ndk':
        return [{'final_newline': True}, {'final_newline': False}]
    return [{}]


def variant_ok(fmt, t, var):
    """A variant that the chosen time cannot be written in is not part of the alphabet."""
    if fmt == 'csep-csv':
        us = rc.sec_to_us(t[5]) % 1000000
        if var.get('time') == 'none':
            return us == 0
        if var.get('time') == 'ms3':
            return us % 1000 == 0
        if var.get('time') == 'unpadded':     # differs from the padded styles only when some clock field is < 10
            return min(t[3], t[4], int(t[5].split('.')[0])) < 10
    return True


def make_record(fmt, t, i_lon, i_lat, i_dep, i_mag, off=None, var=None):
    r = dict(lon=LONS_T[i_lon], lat=LATS_T[i_lat], depth=DEPTHS_T[i_dep], mag=MAGS_T[i_mag], t=t)
    v = dict(var or {})
    if fmt == 'ndk':
        v['moment'] = MOMENTS_T[i_mag]
    if v:
        r['var'] = v
    if fmt == 'jma-csv':
        r['off'] = off or '+0900'
    return r


def plain_record(fmt, k=0):
    return make_record(fmt, [2011, 7, 16 + k, 12, 30, '0'], 5, 3, 1, 1, off='+0900')


def full_alphabet(fmt, tier='quick'):
    """Every record letter of the full product, simplest first. Yields (is_core, record): the core letters are the
    quick tier's; thorough adds the products that involve an extended coordinate letter."""
    offs = OFFSETS if fmt == 'jma-csv' else [None]
    big = tier == 'thorough'
    n = (len(LONS_T), len(LATS_T), len(DEPTHS_T), len(MAGS_T)) if big else (len(LONS), len(LATS), len(DEPTHS), len(MAGS))
    for (name, t), var, off in itertools.product(time_letters(fmt), variants(fmt), offs):
        if not variant_ok(fmt, t, var):
            continue
        for i_lon, i_lat, i_dep, i_mag in itertools.product(*map(range, n)):
            core = i_lon < len(LONS) and i_lat < len(LATS) and i_dep < len(DEPTHS) and i_mag < len(MAGS)
            yield core, make_record(fmt, t, i_lon, i_lat, i_dep, i_mag, off, var)


def medium_alphabet(fmt, tier):
    """Every time letter x offset (x variant in thorough), coordinates rotating so that neighbours differ everywhere."""
    offs = OFFSETS if fmt == 'jma-csv' else [None]
    vs = variants(fmt) if tier == 'thorough' else variants(fmt)[:1]
    out = []
    for vi, var in enumerate(vs):          # default variant first: the quick alphabet is a prefix of the thorough one
        k = 0
        for (name, t), off in itertools.product(time_letters(fmt), offs):
            k += 1
            if not variant_ok(fmt, t, var):
                continue
            j = k + vi
            out.append(make_record(fmt, t, j % len(LONS), j % len(LATS), j % len(DEPTHS), j % len(MAGS), off, var))
    return out


def reduced_alphabet(fmt, tier):
    names = REDUCED if tier == 'thorough' else REDUCED_QUICK
    byname = dict(time_letters(fmt))
    out = []
    for k, n in enumerate(REDUCED):        # k is the position in REDUCED in both tiers: same letters in both
        if n not in byname or n not in names:
            continue
        off = OFFSETS[k % 3]
        out.append(make_record(fmt, byname[n], (k + 1) % len(LONS), (k + 1) % len(LATS), (k + 2) % len(DEPTHS),
                               k % len(MAGS), off))
    return out


def long_files(fmt, tier):
    """Structured many-record files: one calendar/clock field sweeps its whole range."""
    def rec(k, t, off=None):
        t = list(t[:5]) + [adapt_seconds(fmt, t[5])]
        return make_record(fmt, t, k % len(LONS), k % len(LATS), k % len(DEPTHS), k % len(MAGS), off or OFFSETS[k % 3])
    files = []
    files.append([rec(s, [2010, 6, 15, 12, 30, '%d' % s]) for s in range(60)])
    files.append([rec(m, [2010, 6, 15, 12, m, '1']) for m in range(60)])
    files.append([rec(h, [2010, 6, 15, h, 2, '3']) for h in range(24)])
    months = []
    for y in (2000, 2001):
        for mo in range(1, 13):
            last = [31, 29 if y == 2000 else 28, 31, 30, 31, 30, 31, 31, 30, 31, 30, 31][mo - 1]
            months.append([y, mo, 1, 0, 0, '0'])
            months.append([y, mo, last, 23, 59, '59'])
    files.append([rec(k, t) for k, t in enumerate(months)])
    if rc.RESOLUTION[fmt] == 'ms':
        bases = [[2010, 6, 15, 12, 30, 7], [2038, 7, 9, 4, 52, 37]]
        if tier == 'thorough':
            bases += [[1969, 12, 31, 23, 59, 59], [1901, 3, 4, 5, 6, 7], [2100, 2, 28, 23, 59, 59]]
        for b in bases:
            files.append([rec(k, b[:5] + ['%d.%03d' % (b[5], k)]) for k in range(1000)])
    if fmt in CAN_60:
        files.append([rec(m, [2010, 6, 15, 22 + m // 60, m % 60, '60']) for m in range(120)])
    # every second of a minute with a quarter-second fraction (cut to the format's digits)
    files.append([rec(s_, [2010, 6, 15, 7, 15, '%d.25' % s_]) for s_ in range(60)])
    # thousands of records (files beyond 100 kB / 1 MB)
    for n in (5000,) + ((30000,) if tier == 'thorough' else ()):
        files.append([rec(k, [1990 + k // 336, 1 + (k // 28) % 12, 1 + k % 28, k % 24, (k * 7) % 60, '%d' % ((k * 11) % 60)]) for k in range(n)])
    return files


def extra_block(fmt, day):
    offs = OFFSETS if fmt == 'jma-csv' else [None]
    k = 0
    for (h, mi, sec), off in itertools.product(CLOCKS, offs):
        if D60(sec) and fmt not in CAN_60:
            continue
        t = list(day) + [h, mi, adapt_seconds(fmt, sec)]
        yield make_record(fmt, t, k % len(LONS), (k + 1) % len(LATS), k % len(DEPTHS), (k + 2) % len(MAGS), off)
        k += 1


def D60(sec):
    return sec.split('.')[0] == '60'


def _chunks(it, n):
    buf = []
    for x in it:
        buf.append(x)
        if len(buf) == n:
            yield buf
            buf = []
    if buf:
        yield buf


BATCH = {'csep-csv': 150, 'jma-csv': 150, 'zmap': 150, 'ingv_horus': 100, 'ndk': 100}


def cases(tier, seed):
    base = []
    for c in space.with_time_zones(_cases(tier, seed), 12):
        if 'tz' not in c:
            base.append(c)
        yield c
    # the file name handed over as a pathlib.Path: the plain block of every format and every 12th case of the enumeration
    for c in [c for c in base if c.get('block') == 'plain'] + base[5::12]:
        yield dict(c, pathform='Path')


def _cases(tier, seed):
    # block 1: simplest first -- one plain record, two plain records, per format
    for fmt in rc.FORMATS:
        yield dict(kind='files', fmt=fmt, block='plain',
                   files=[dict(records=[plain_record(fmt)], opts=file_options(fmt)[0]),
                          dict(records=[plain_record(fmt), plain_record(fmt, 1)], opts=file_options(fmt)[0])])
    # block 2: every single record of the full product, and the doubled file, under every file option
    for fmt in rc.FORMATS:
        def singles(fmt=fmt):
            fo = file_options(fmt)
            for core, r in full_alphabet(fmt, tier):
                for o in fo:
                    yield dict(records=[r], opts=o)
                    if o == fo[0] or tier == 'thorough':     # quick: the doubled file under the default option only
                        yield dict(records=[r, r], opts=o)
        for chunk in _chunks(singles(), BATCH[fmt]):
            yield dict(kind='files', fmt=fmt, block='single+double', files=chunk)
    # block 3: every ordered pair of distinct medium letters (file options: all in thorough, default + last in quick)
    for fmt in rc.FORMATS:
        med = medium_alphabet(fmt, tier)
        fo = file_options(fmt)
        opts = fo if tier == 'thorough' else ([fo[0], fo[-1]] if len(fo) > 1 else fo)

        def pairs(med=med, opts=opts):
            for a, b in itertools.permutations(range(len(med)), 2):
                for o in opts:
                    yield dict(records=[med[a], med[b]], opts=o)
        for chunk in _chunks(pairs(), BATCH[fmt]):
            yield dict(kind='files', fmt=fmt, block='pairs', files=chunk)
    # block 4: every triple over the reduced alphabet
    for fmt in rc.FORMATS:
        red = reduced_alphabet(fmt, tier)

        def triples(red=red, fmt=fmt):
            for tr in itertools.product(range(len(red)), repeat=3):
                yield dict(records=[red[i] for i in tr], opts=file_options(fmt)[0])
        for chunk in _chunks(triples(), BATCH[fmt]):
            yield dict(kind='files', fmt=fmt, block='triples', files=chunk)
    # block 5: structured long files
    for fmt in rc.FORMATS:
        for recs in long_files(fmt, tier):
            yield dict(kind='files', fmt=fmt, block='long', files=[dict(records=recs, opts=file_options(fmt)[0])])
    # block 6: the clock letters on other calendar days -- quick: the seed-selected day, thorough: all of them
    days = EXTRA_DAYS if tier == 'thorough' else [EXTRA_DAYS[seed % len(EXTRA_DAYS)]]
    for day in days:
        for fmt in rc.FORMATS:
            letters = list(extra_block(fmt, day))
            files = []
            for r in letters:
                files.append(dict(records=[r], opts=file_options(fmt)[0]))
                files.append(dict(records=[r, r], opts=file_options(fmt)[0]))
            for a, b in itertools.permutations(range(len(letters)), 2):
                files.append(dict(records=[letters[a], letters[b]], opts=file_options(fmt)[-1]))
            for chunk in _chunks(files, BATCH[fmt]):
                yield dict(kind='files', fmt=fmt, block='extra-day-%04d-%02d-%02d' % tuple(day), files=chunk)


# ----------------------------------------------------------------------------- observation
_COUNTER = [0]


def _workdir():
    d = os.path.join('/verif/.work', str(os.getpid()))
    os.makedirs(d, exist_ok=True)
    return d


_PATHFORM = ['str']         # how the file name is handed to the loader in the current case: 'str' | 'Path' (pathlib.Path)


def observe(fmt, text):
    """Run the real loader on a file holding `text`. Returns ('ok', events) with events = list of
    (lon, lat, depth, mag, origin_time_ms) in catalog order, or ('exc', type name, message)."""
    import csep
    _COUNTER[0] += 1
    path = os.path.join(_workdir(), 'c19_%d%s' % (_COUNTER[0], rc.EXT[fmt]))
    with open(path, 'w', newline='') as fh:
        fh.write(text)
    try:
        with open(os.devnull, 'w') as dn, contextlib.redirect_stdout(dn):
            try:
                import pathlib
                cat = csep.load_catalog(pathlib.Path(path) if _PATHFORM[0] == 'Path' else path, type=fmt)
                n = int(cat.event_count)
                lons = [float(x) for x in cat.get_longitudes()]
                lats = [float(x) for x in cat.get_latitudes()]
                deps = [float(x) for x in cat.get_depths()]
                mags = [float(x) for x in cat.get_magnitudes()]
                times = [int(x) for x in cat.get_epoch_times()]
                raw = len(cat.catalog)
            except Exception as e:      # the library failing on a well-formed file is an observation, not a crash
                return ('exc', type(e).__name__, str(e).replace(path, '<file>')[:300])
        if not (n == raw == len(lons) == len(lats) == len(deps) == len(mags) == len(times)):
            return ('exc', 'InconsistentCatalog', 'event_count=%d len(catalog)=%d columns=%s' % (
                n, raw, [len(lons), len(lats), len(deps), len(mags), len(times)]))
        return ('ok', list(zip(lons, lats, deps, mags, times)))
    finally:
        try:
            os.remove(path)
        except OSError:
            pass


# ----------------------------------------------------------------------------- classes (for signatures / RULE)
def record_features(fmt, r):
    """Ordered list of the input classes a record belongs to (most specific first)."""
    f = []
    t = r['t']
    if D60(t[5]):
        f.append('second-60')
    if fmt == 'jma-csv' and r.get('off', '+0900') != '+0000':
        f.append('non-utc-offset')
    t_us = rc.instant_us(t, r.get('off', '+0000') if fmt == 'jma-csv' else '+0000')
    if t_us < 0:
        f.append('pre-1970')
    if rc.sec_to_us(t[5]) % 1000000:
        f.append('fractional-second')
    if (t[1], t[2]) == (2, 29):
        f.append('leap-day')
    var = {k: v for k, v in r.get('var', {}).items() if k != 'moment'}
    for k in sorted(var):
        f.append('variant-%s' % k)
    if r['lon'].startswith('-') or r['lat'].startswith('-'):
        f.append('negative-coordinate')
    return f


def time_class(fmt, r):
    f = [x for x in record_features(fmt, r) if x in ('second-60', 'non-utc-offset', 'pre-1970', 'fractional-second')]
    return f[0] if f else 'any-record'


def exc_class_of_record(fmt, r):
    f = [x for x in record_features(fmt, r) if x != 'negative-coordinate']
    return f[0] if f else 'any-record'


def is_nontrivial(fmt, spec):
    if len(spec['records']) >= 2:
        return True
    if spec['opts'] != file_options(fmt)[0]:
        return True
    return bool(record_features(fmt, spec['records'][0]))


# ----------------------------------------------------------------------------- judging
def _matches(e, ev):
    """Field-by-field agreement of one observed event with one expected event -> list of disagreeing field classes."""
    lon, lat, dep, mag, t = ev
    bad = []
    if lon not in e['lon']:
        bad.append('longitude')
    if lat not in e['lat']:
        bad.append('latitude')
    if dep not in e['depth']:
        bad.append('depth')
    if 'mag_rtol' in e:
        if not any(abs(mag - m) <= e['mag_rtol'] * max(1.0, abs(m)) for m in e['mag']):
            bad.append('magnitude')
    elif mag not in e['mag']:
        bad.append('magnitude')
    ok_t = rc.expected_times_ms(e)
    if t not in ok_t:
        pred = {rc.float_truncation_prediction_ms(x) for x in e['t_us']}
        if t in pred and (t + 1) in ok_t:
            bad.append('origin-time-1ms-low')
        elif t in pred and (t - 1) in ok_t:
            bad.append('origin-time-1ms-high')
        else:
            bad.append('origin-time')
    return bad


def _small(fmt, spec):
    return dict(kind='files', fmt=fmt, files=[spec])


_PLAIN_PROBES = {}


def _raises(fmt, records, opts, counters, memo=None):
    """Exception type name the loader raises on this file (None = loads). The two plain probe files are the same for
    every failing file of a format, so their (deterministic) outcome is remembered per process; `probes_requested`
    counts requests, not executions, so that it does not depend on how cases are sharded."""
    counters['probes_requested'] = counters.get('probes_requested', 0) + 1
    if memo is not None and (fmt, memo) in _PLAIN_PROBES:
        return _PLAIN_PROBES[(fmt, memo)]
    text, _ = rc.write(fmt, records, opts)
    o = observe(fmt, text)
    out = o[1] if o[0] == 'exc' else None
    if memo is not None:
        _PLAIN_PROBES[(fmt, memo)] = out
    return out


def classify_exception(fmt, spec, etype, counters):
    """Input class of a file on which the loader raised `etype`, found by re-running simpler files of the same format
    (deterministic delta-debugging; returns (class, smallest failing spec))."""
    dflt = file_options(fmt)[0]
    p1 = dict(records=[plain_record(fmt)], opts=dflt)
    p2 = dict(records=[plain_record(fmt), plain_record(fmt, 1)], opts=dflt)
    r1 = _raises(fmt, p1['records'], dflt, counters, memo='p1')
    r2 = _raises(fmt, p2['records'], dflt, counters, memo='p2')
    if r2 == etype:
        return 'any-record', (p1 if r1 == etype else p2)
    if r1 == etype and len(spec['records']) == 1:
        return 'one-record-file', p1
    # which record does it? try each record alone (behind a plain record when one-record files fail on their own)
    prefix = [plain_record(fmt)] if r1 is not None else []
    for r in spec['records']:
        for opts in ([dflt, spec['opts']] if spec['opts'] != dflt else [dflt]):
            if _raises(fmt, prefix + [r], opts, counters) == etype:
                cls = exc_class_of_record(fmt, r)
                if opts != dflt and cls == 'any-record':
                    cls = 'file-option-' + '-'.join('%s=%s' % kv for kv in sorted(opts.items()))
                return cls, dict(records=prefix + [r], opts=opts)
    if spec['opts'] != dflt and _raises(fmt, spec['records'], dflt, counters) is None:
        return 'file-option-' + '-'.join('%s=%s' % kv for kv in sorted(spec['opts'].items())), spec
    return 'multi-record-file', spec


def judge_file(fmt, spec, failures, h, counters):
    text, exp = rc.write(fmt, spec['records'], spec['opts'])
    obs = observe(fmt, text)
    h.update(repr(obs).encode())
    site = SITE[fmt]
    if obs[0] == 'exc':
        cls, small = classify_exception(fmt, spec, obs[1], counters)
        failures.append(Fail('%s|%s|%s' % (site, obs[1], cls),
                             '%s: %s on a %d-record %s file; first lines: %r' % (
                                 obs[1], obs[2], len(spec['records']), fmt, text[:400]),
                             _small(fmt, small)))
        return
    events = obs[1]
    n = len(exp)
    if len(events) != n:
        cls = 'one-record-file' if n == 1 else 'multi-record-file'
        failures.append(Fail('%s|event-count|%s' % (site, cls),
                             'expected %d events, loaded %d; file: %r' % (n, len(events), text[:400]), _small(fmt, spec)))
        return
    bad = [(k, _matches(exp[k], events[k])) for k in range(n)]
    bad = [(k, b) for k, b in bad if b]
    if not bad:
        return
    # same events in another order? (only asked when something other than the 1-ms float-truncation label disagrees)
    hard = any(not x.startswith('origin-time-1ms') for _, b in bad for x in b)
    if n >= 2 and hard:
        perms = itertools.permutations(range(n)) if n <= 4 else [tuple(reversed(range(n))),
                                                                 tuple(sorted(range(n), key=lambda i: events[i][4]))]
        for p in perms:
            if p != tuple(range(n)) and all(not [x for x in _matches(exp[k], events[p[k]]) if not x.startswith('origin-time-1ms')]
                                            for k in range(n)):
                failures.append(Fail('%s|event-order|multi-record-file' % site,
                                     'events are the encoded ones but not in file order (position map %s); file: %r' % (
                                         list(p)[:12], text[:400]), _small(fmt, spec)))
                return
    seen = set()
    for k, fields in bad:
        r = spec['records'][k]
        single = dict(records=[r], opts=spec['opts'])
        for fld in fields:
            if fld.startswith('origin-time-1ms'):
                sig = '%s|%s|float-truncation' % (site, fld)
            elif fld == 'origin-time':
                sig = '%s|origin-time|%s' % (site, time_class(fmt, r))
            else:
                sig = '%s|%s|any-record' % (site, fld)
            if sig in seen:
                continue
            seen.add(sig)
            e = exp[k]
            detail = ('record %d of %d: %s expected one of %s got %s; observed event (lon,lat,depth,mag,ms)=%s; '
                      'record text: %r' % (
                          k + 1, n, fld,
                          rc.expected_times_ms(e) if fld.startswith('origin') else e[{'longitude': 'lon', 'latitude': 'lat',
                                                                                     'depth': 'depth', 'magnitude': 'mag'}[fld]],
                          events[k][4] if fld.startswith('origin') else
                          events[k][['longitude', 'latitude', 'depth', 'magnitude'].index(fld)],
                          events[k], rc.write(fmt, [r], spec['opts'])[0][-420:]))
            # smallest replayable case: the record alone if that shows the same thing, else the whole file
            failures.append(Fail(sig, detail, _small(fmt, _minimal(fmt, spec, k, fld, single, counters))))


def _minimal(fmt, spec, k, fld, single, counters):
    if len(spec['records']) == 1:
        return spec
    text, exp = rc.write(fmt, single['records'], single['opts'])
    counters['probes_requested'] = counters.get('probes_requested', 0) + 1
    o = observe(fmt, text)
    if o[0] == 'ok' and len(o[1]) == 1 and fld in _matches(exp[0], o[1][0]):
        return single
    if len(spec['records']) > 3:
        lo = max(0, k - 1)
        return _shrink_window(fmt, spec, lo, k, fld, counters)
    return spec


def _shrink_window(fmt, spec, lo, k, fld, counters):
    sub = dict(records=spec['records'][lo:k + 1], opts=spec['opts'])
    text, exp = rc.write(fmt, sub['records'], sub['opts'])
    counters['probes_requested'] = counters.get('probes_requested', 0) + 1
    o = observe(fmt, text)
    if o[0] == 'ok' and len(o[1]) == len(exp) and fld in _matches(exp[-1], o[1][-1]):
        return sub
    return spec


def run_case(case):
    fmt = case['fmt']
    _PATHFORM[0] = case.get('pathform', 'str')
    try:
        r = _run_case(case)
    finally:
        _PATHFORM[0] = 'str'
    if case.get('pathform'):
        for f in r['failures']:
            f['signature'] += ',file-name-as-' + case['pathform']
            if isinstance(f.get('case'), dict):
                f['case'] = dict(f['case'], pathform=case['pathform'])
    return r


def _run_case(case):
    fmt = case['fmt']
    failures = []
    counters = {}
    h = hashlib.sha1()
    digests = []
    nontrivial = 0
    records = 0
    if case.get('block') == 'plain':
        # history: a call with a user-supplied `loader` comes first; the plain loads that follow must still use the format's
        # own reader (nothing may be remembered from the custom call)
        import csep
        marker = [('custom', 86400000, 1.5, 2.5, 3.5, 4.5)]
        path = os.path.join(_workdir(), 'c19_custom%s' % rc.EXT[fmt])
        with open(path, 'w', newline='') as fh:
            fh.write(rc.write(fmt, [plain_record(fmt)], file_options(fmt)[0])[0])
        try:
            with open(os.devnull, 'w') as dn, contextlib.redirect_stdout(dn):
                cat = csep.load_catalog(path, type=fmt, loader=lambda fname: list(marker))
            counters['custom_loader_calls'] = 1
            if int(cat.event_count) != 1 or float(cat.get_magnitudes()[0]) != 4.5:
                failures.append(Fail('csep.load_catalog|custom-loader-not-used|%s' % fmt, 'loader= argument ignored', dict(kind='files', fmt=fmt, block='plain', files=case['files'])))
        except Exception as e:
            failures.append(Fail('csep.load_catalog|%s|custom-loader' % type(e).__name__, '%s: %s' % (type(e).__name__, e), dict(kind='files', fmt=fmt, block='plain', files=case['files'])))
        finally:
            try:
                os.remove(path)
            except OSError:
                pass
    for spec in case['files']:
        judge_file(fmt, spec, failures, h, counters)
        text = rc.write(fmt, spec['records'], spec['opts'])[0]
        digests.append(hashlib.sha1((fmt + '\0' + text).encode()).hexdigest()[:16])
        nontrivial += 1 if is_nontrivial(fmt, spec) else 0
        records += len(spec['records'])
    try:
        os.rmdir(_workdir())        # leave nothing behind (re-created on demand by the next case)
    except OSError:
        pass
    # one Fail per signature per case goes back to the engine (the first = simplest); the number of failing files per
    # signature is kept as a counter so nothing is hidden
    kept = {}
    for f in failures:
        counters['failing_files|' + f['signature']] = counters.get('failing_files|' + f['signature'], 0) + 1
        kept.setdefault(f['signature'], f)
    failures = list(kept.values())
    n = len(case['files'])
    counters['files_' + fmt] = n
    counters['records_' + fmt] = records
    first = case['files'][0]
    sample = dict(fmt=fmt, block=case.get('block', 'replay'), opts=first['opts'],
                  file_text=rc.write(fmt, first['records'][:3], first['opts'])[0][:900])
    return result(evals=n, states=len(set(digests)), transitions=n, nontrivial=nontrivial, failures=failures,
                  digest=h.hexdigest(), counters=counters, sets={'file_digests': digests}, sample=sample)


def finish(agg, tier):
    ev = dict(bounds=dict(
        formats=list(rc.FORMATS), longitudes=len(LONS_T if tier == 'thorough' else LONS),
        latitudes=len(LATS_T if tier == 'thorough' else LATS), depths=len(DEPTHS_T if tier == 'thorough' else DEPTHS),
        magnitudes=len(MAGS_T if tier == 'thorough' else MAGS),
        time_letters={f: len(time_letters(f)) for f in rc.FORMATS}, jma_offsets=OFFSETS,
        record_variants={f: len(variants(f)) for f in rc.FORMATS}, file_options={f: len(file_options(f)) for f in rc.FORMATS},
        full_alphabet={f: sum(1 for _ in full_alphabet(f, tier)) for f in rc.FORMATS},
        medium_alphabet={f: len(medium_alphabet(f, tier)) for f in rc.FORMATS},
        reduced_alphabet={f: len(reduced_alphabet(f, tier)) for f in rc.FORMATS},
        max_records_per_file=1000, records_per_file='1,2,3 exhaustively; 24..1000 structured'),
        distinct_files=len(agg['sets'].get('file_digests', ())))
    return dict(evidence=ev)
