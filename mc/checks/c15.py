"""C15 Time conversions are exact to the millisecond and order-preserving.

Every element of the stated finite space is pushed through the REAL functions of csep.utils.time_utils (and the two
thin users CSEPCatalog.get_datetimes and CatalogForecast.start_epoch/end_epoch) and every observation is compared with
mc.ref.ref_time (integer arithmetic on datetime/timedelta, exact rationals for decimal years).

What the oracle demands (never more than the property text):
  * ms -> datetime            : the datetime is exactly that instant (int, numpy.int64 and float-typed integers);
  * ms -> datetime -> ms      : the same integer;
  * aligned datetime -> ms    : the same integer (naive and UTC-aware), and -> datetime again the same instant;
  * finer datetime -> ms      : floor or ceiling (the two integers strictly within one millisecond), and back within 1 ms;
  * formatted string          : strptime_to_utc_datetime gives exactly the instant, strptime_to_utc_epoch the integer
                                (floor/ceiling for finer strings); with 6- and 3-digit fraction, without fraction, each
                                with and without '+00:00', and with an explicit format argument;
  * order                     : every one of these maps is non-decreasing along the increasing input sequence;
  * decimal_year              : strictly increasing over consecutive milliseconds and lattice steps (within and across
                                years); over consecutive MICROseconds only non-decreasing is judged (1 us is below the
                                float64 resolution of a decimal year, 7-14 us; ties are counted, not judged);
  * inverse                   : decimal_year_to_utc_datetime(decimal_year(t)) within 1000 us of t; the epoch variant
                                within 1 ms of an admissible millisecond of t.
"""
import datetime
import hashlib
import os

import numpy

from mc.engine import Fail, result
from mc.ref import ref_time as R

ID = 'C15'
TU = 'csep.utils.time_utils'
SIG_TRUNC = TU + '.datetime_to_utc_epoch|off-by-one-ms|float-truncation'

RULE = ('Process time zone: UTC for everything below, plus 5 complete windows of +-500 ms (thorough +-5000), 4001 microseconds and 3 years of decimal years under each of TZ=PST8PDT, XJP-9, XNP-5:45, UTC0. Complete windows: EVERY integer millisecond in [b-W, b+W] (clipped to 1900-01-01..2200-01-01), W=5000 quick / '
        '100000 thorough, around 16 boundaries b (epoch 0; starts of 1900, 1901, 2000, 2001, 2100, 2200; 2000-02-29, '
        '2000-03-01, 2100-03-01; two day, two minute and two second boundaries on both sides of 1970, incl. 2^31 s); all '
        '1000 millisecond phases of 8 further seconds; every whole second within +-1800 s (thorough +-20000 s) of each '
        'boundary; the lattice ms = 1900-01-01 + r + j*9467077 over 1900..2200 (1 000 004 points per residue r; thorough: '
        'all 16 residues; quick: every 3rd point of r=0 plus every 3rd point of one seed-selected other residue); every microsecond in 4 (thorough 64) '
        'consecutive milliseconds around each boundary; decimal years Y + j/64 (thorough j/1024) and all floats within 8 '
        '(thorough 64) ulps of every integer year 1900..2200. Each millisecond value is pushed through every function in '
        'every input form (int/numpy.int64/float ms; naive/aware datetimes; 4-7 string spellings). '
        'A case is one instant (an integer ms, a datetime with non-zero microsecond phase, or a float decimal year). '
        'Instants are distinct by construction: windows are disjoint, second sweeps start outside their window, lattice '
        'points inside a window are dropped, residues are disjoint. An instant is NON-TRIVIAL iff its millisecond has a '
        'non-zero sub-second part (so the conversions go through a binary fraction of a second), or it lies on a '
        'minute/day/year boundary, or it is a datetime with non-zero microsecond phase, or (decimal years) it lies within '
        '64 ulps of an integer year.')

ASSUMPTIONS = [
    'reference = mc/ref/ref_time.py: EPOCH + timedelta(milliseconds=ms) and integer days/seconds/microseconds of timedeltas; '
    'decimal years as exact fractions; no float in any deciding comparison except the strict/weak order of the float decimal years themselves',
    'POSIX time scale without leap seconds (what datetime implements); platform is Linux (the os.name == "nt" branch of epoch_time_to_utc_datetime is not executed)',
    '"for every integer millisecond in 1900..2200" is decided on the complete windows and the lattice sweep; millisecond values between lattice points '
    'outside the windows are not explored (no sampling decides anything)',
    '"sampled uniformly" is replaced by the deterministic lattice (step 9467077 ms, coprime to 1000, so all millisecond phases occur equally often)',
    'a returned naive datetime is read as UTC (the property does not demand tz-awareness of results)',
    'strict increase of decimal_year is demanded at 1 ms spacing (>= 140 ulps of a float64 year); at 1 us spacing only non-decrease is judged',
    'failures of strptime_to_utc_epoch / decimal_year_to_utc_epoch / CatalogForecast.start_epoch that reproduce exactly the value the direct '
    'datetime_to_utc_epoch call gave for the same instant are attributed to the datetime_to_utc_epoch signature (one defect, one signature) and counted',
]

BASE_STEP = 9467077                # lattice step in ms (about 2.63 h); gcd(STEP, 1000) = 1
NRES = 16
RESIDUES = [k * (BASE_STEP // NRES) for k in range(NRES)]
QUICK_STRIDE = 3                   # quick tier: every 3rd lattice point (3*BASE_STEP is still coprime to 1000)
CHUNK = 2000

EXAMPLE_MS = 2162263957055         # DESIGN section 5 #11


def _bases():
    Y = R.ymd_to_ms
    return [
        ('epoch-0', 0),
        ('year-2000', Y(2000)), ('year-2001', Y(2001)), ('year-1901', Y(1901)), ('year-1900', Y(1900)),
        ('year-2100', Y(2100)), ('year-2200', Y(2200)),
        ('2000-02-29', Y(2000, 2, 29)), ('2000-03-01', Y(2000, 3, 1)), ('2100-03-01', Y(2100, 3, 1)),
        ('day-1969-07-21', Y(1969, 7, 21)), ('day-2033-05-18', Y(2033, 5, 18)),
        ('minute-1955-11-05T06:15', Y(1955, 11, 5, 6, 15)), ('minute-2015-06-30T23:59', Y(2015, 6, 30, 23, 59)),
        ('second-1938-04-24T22:13:20', -10 ** 12), ('second-2038-01-19T03:14:08', 2 ** 31 * 1000),
    ]


PHASE_SECONDS = [86399, 10 ** 9, 1234567890, EXAMPLE_MS // 1000, -123456789, -2 * 10 ** 9, 4 * 10 ** 9, 7 * 10 ** 9]


def _clip(lo, hi):
    return max(lo, R.MS_1900), min(hi, R.MS_2200)


def _windows(tier):
    W = 5000 if tier == 'quick' else 100000
    out = []
    for name, b in _bases():
        lo, hi = _clip(b - W, b + W)
        out.append((name, b, lo, hi))
    return out


def _bounds(tier):
    q = tier == 'quick'
    return dict(window_half_width_ms=5000 if q else 100000, n_windows=len(_bases()),
                phase_seconds=len(PHASE_SECONDS), second_sweep_half_width_s=1800 if q else 20000,
                lattice_step_ms=BASE_STEP * (QUICK_STRIDE if q else 1), lattice_residues=2 if q else NRES,
                us_phase_ms_per_boundary=4 if q else 64,
                decimal_year_subdivisions=64 if q else 1024, decimal_year_ulp_halfwidth=8 if q else 64,
                domain_ms=[R.MS_1900, R.MS_2200])


def _window_chunks(name, b, lo, hi):
    """Chunks of a complete window, nearest to the boundary first (non-negative side first)."""
    chunks = []
    a = b
    while a <= hi:
        chunks.append((a, min(a + CHUNK - 1, hi)))
        a += CHUNK
    z = b - 1
    neg = []
    while z >= lo:
        neg.append((max(z - CHUNK + 1, lo), z))
        z -= CHUNK
    merged = []
    for i in range(max(len(chunks), len(neg))):
        if i < len(chunks):
            merged.append(chunks[i])
        if i < len(neg):
            merged.append(neg[i])
    for c_lo, c_hi in merged:
        yield dict(kind='window', name=name, lo=c_lo, hi=c_hi, last=(c_hi == hi))


def _sweeps(tier, windows):
    """Whole-second sweeps on both sides of every window: (name, first_ms, last_ms), multiples of 1000 only."""
    S = 1800 if tier == 'quick' else 20000
    out = []
    for name, b, lo, hi in windows:
        b_s = b // 1000
        right = ((hi // 1000 + 1) * 1000, min((b_s + S) * 1000, R.MS_2200))
        left = (max((b_s - S) * 1000, R.MS_1900), ((lo - 1) // 1000) * 1000)
        for first, lastv in (right, left):
            if first <= lastv:
                out.append(('seconds-' + name, first, lastv))
    return out


def _ranges(tier):
    """Every millisecond family other than the lattice as (lo, hi, modulus): the families must be pairwise disjoint
    (asserted) so that instants are distinct by construction; lattice points inside any of them are dropped."""
    windows = _windows(tier)
    rs = [(lo, hi, 1) for _, _, lo, hi in windows]
    rs += [(s * 1000, s * 1000 + 999, 1) for s in PHASE_SECONDS]
    rs += [(first, lastv, 1000) for _, first, lastv in _sweeps(tier, windows)]
    srt = sorted(rs)
    for (l0, h0, _), (l1, h1, _) in zip(srt, srt[1:]):
        assert h0 < l1, ('overlapping millisecond families', (l0, h0), (l1, h1))
    return rs


def _lattice_cases(r, ranges, label, stride=1, phase=0):
    """Lattice points 1900-01-01 + r + (phase + stride*j)*BASE_STEP, j = 0, 1, ... up to 2200-01-01 (stride 1 in the
    thorough tier, so every quick block is a subset of a thorough block)."""
    STEP = BASE_STEP * stride
    start = R.MS_1900 + r + phase * BASE_STEP
    n_total = (R.MS_2200 - start) // STEP + 1
    for k0 in range(0, n_total, CHUNK):
        n = min(CHUNK, n_total - k0)
        first, last = start + k0 * STEP, start + (k0 + n - 1) * STEP
        drop = []
        for lo, hi, mod in ranges:
            if hi < first or lo > last:
                continue
            j = max(0, -((first - lo) // STEP))
            while first + j * STEP <= min(hi, last):
                if (first + j * STEP) % mod == 0:
                    drop.append(first + j * STEP)
                j += 1
        yield dict(kind='lattice', name=label, start=first, step=STEP, n=n, drop=sorted(drop),
                   last=(k0 + n >= n_total), tag='lattice-step')


EXPLICIT_FORMATS = {'explicit-format-T': '%Y-%m-%dT%H:%M:%S.%f', 'explicit-format-dashes': '%Y-%m-%dT%H-%M-%S-%f',
                    'explicit-format-compact': '%Y%m%d%H%M%S%f', 'explicit-format-fraction-first': '%f %d/%m/%Y %H:%M:%S',
                    'explicit-format-whole-seconds': '%Y/%m/%d %H:%M:%S'}


def cases(tier, seed):
    quick = tier == 'quick'
    windows = _windows(tier)
    ranges = _ranges(tier)
    # 1. complete millisecond windows, epoch first, nearest-to-boundary first
    for name, b, lo, hi in windows:
        yield from _window_chunks(name, b, lo, hi)
    # 2. all 1000 phases of 8 seconds
    for s in PHASE_SECONDS:
        yield dict(kind='window', name=f'phases-of-second-{s}', lo=s * 1000, hi=s * 1000 + 999, last=True)
    # 2b. the process time zone is an input nobody passes explicitly: complete windows again with TZ set to zones west and
    #     east of Greenwich, with and without daylight saving, and with a 45-minute offset (POSIX TZ strings, no tz database needed)
    W2 = 500 if quick else 5000
    for tz in TZS:
        for name, b in (('epoch', 0), ('2010-01-15T12', R.ymd_to_ms(2010, 1, 15, 12)), ('2010-07-15T12', R.ymd_to_ms(2010, 7, 15, 12)),
                        ('dst-start-2010', R.ymd_to_ms(2010, 3, 14, 10)), ('1935', R.ymd_to_ms(1935, 3, 22, 5, 12, 29))):
            yield dict(kind='window', name=f'{name}[TZ={tz}]', lo=b - W2, hi=b + W2, last=True, tz=tz)
        yield dict(kind='usphase', name=f'epoch[TZ={tz}]', lo=-2000, hi=2000, last=True, tz=tz)
        yield dict(kind='decyear', y0=1999, y1=2001, nsub=64, kulp=8, tz=tz)
    # 3. every microsecond inside a few consecutive milliseconds around each boundary
    nms = 4 if quick else 64
    us_bases = [(name, b) for name, b in _bases()] + [('design-example', EXAMPLE_MS)]
    for name, b in us_bases:
        lo, hi = _clip(b - nms // 2, b + nms // 2)
        a = lo * 1000
        end = hi * 1000
        while a < end:
            z = min(a + CHUNK - 1, end)
            yield dict(kind='usphase', name=name, lo=a, hi=z, last=(z == end))
            a = z + 1
    # 4. decimal years as inputs
    nsub = 64 if quick else 1024
    kulp = 8 if quick else 64
    per_case = 4 if quick else 1
    for y0 in range(1900, 2201, per_case):
        yield dict(kind='decyear', y0=y0, y1=min(y0 + per_case - 1, 2200), nsub=nsub, kulp=kulp)
    # 5. every whole second around each boundary (outside the complete window, which already has its seconds)
    for name, first, lastv in _sweeps(tier, windows):
        n_total = (lastv - first) // 1000 + 1
        for k0 in range(0, n_total, CHUNK):
            n = min(CHUNK, n_total - k0)
            yield dict(kind='lattice', name=name, start=first + k0 * 1000, step=1000, n=n, drop=[],
                       last=(k0 + n >= n_total), tag='consecutive-seconds')
    # 6. lattice sweep over 1900..2200
    if quick:
        yield from _lattice_cases(RESIDUES[0], ranges, 'lattice-r0', QUICK_STRIDE, 0)
        k = 1 + seed % (NRES - 1)
        ph = (seed // (NRES - 1)) % QUICK_STRIDE
        yield from _lattice_cases(RESIDUES[k], ranges, f'lattice-r{k}-phase{ph}-seed-block', QUICK_STRIDE, ph)
    else:
        for k in range(NRES):
            yield from _lattice_cases(RESIDUES[k], ranges, f'lattice-r{k}')


# ----------------------------------------------------------------------------------------------------------- plumbing
_L = None


def _lib():
    global _L
    if _L is None:
        import csep
        from csep.utils import time_utils as tu
        from csep.core.catalogs import CSEPCatalog
        from csep.core.forecasts import CatalogForecast
        _L = (csep, tu, CSEPCatalog, CatalogForecast)
    return _L


class Collector:
    """Keeps the first few failures per signature of a case and counts all of them."""

    def __init__(self, keep=2):
        self.keep = keep
        self.fails = []
        self.counts = {}
        self.counters = {}

    def add(self, sig, detail, case):
        n = self.counts.get(sig, 0) + 1
        self.counts[sig] = n
        if n <= self.keep:
            self.fails.append(Fail(sig, detail, case))

    def count(self, name, k=1):
        self.counters[name] = self.counters.get(name, 0) + k

    def all_counters(self):
        out = dict(self.counters)
        for s, n in self.counts.items():
            out['failing_calls[' + s + ']'] = n
        return out


def _instant(x):
    """Exact microseconds of a datetime returned by the library; None if it is not a datetime."""
    if isinstance(x, datetime.datetime):
        return R.datetime_to_us(x)
    return None


def _is_number(v):
    return isinstance(v, (int, float, numpy.integer, numpy.floating)) and not isinstance(v, bool)


def _float_path_ms(us):
    """What `int(1000.0 * timedelta.total_seconds())` evaluates to: only used to NAME the input class of an
    already established disagreement (never to decide one)."""
    return int(1000.0 * (us / 1e6))


def _judge_d2e(C, val, us, form, rcase):
    """Judge one direct datetime_to_utc_epoch result. Returns True when accepted."""
    cands = R.ms_candidates(us)
    if _is_number(val) and val in cands:
        return True
    if len(cands) == 1:
        if _is_number(val) and abs(val - cands[0]) == 1 and val == _float_path_ms(us):
            sig = SIG_TRUNC
        else:
            sig = f'{TU}.datetime_to_utc_epoch|wrong-value|{form}'
        C.add(sig, f'datetime_to_utc_epoch({form} datetime of {us // 1000} ms = {R.us_to_datetime(us).isoformat()}) '
                   f'expected {cands[0]} got {val!r}', rcase)
    else:
        C.add(f'{TU}.datetime_to_utc_epoch|not-within-1ms|microsecond-phase',
              f'datetime_to_utc_epoch({form} datetime of {us} us) expected one of {cands} got {val!r}', rcase)
    return False


def _judge_indirect(C, site, inclass, val, us, direct_val, rcase, slack_ms=0, failclass='wrong-value'):
    """A function that ends in datetime_to_utc_epoch. `direct_val` is what the direct call returned for the same
    instant; an identical wrong value is the same defect (counted, not re-reported)."""
    cands = R.ms_candidates(us)
    if _is_number(val) and any(abs(val - c) <= slack_ms for c in cands) and val == int(val):
        return True
    if direct_val is not None and _is_number(val) and val == direct_val and direct_val not in cands:
        C.count(f'indirect_reproductions_of_datetime_to_utc_epoch_failure[{site}]')
        return False
    C.add(f'{site}|{failclass}|{inclass}', f'{site} for instant {us} us ({inclass}): expected '
          f'{"one of " if len(cands) > 1 else ""}{list(cands)}{f" +-{slack_ms} ms" if slack_ms else ""} got {val!r}', rcase)
    return False


def _order(C, site, kind, prev, cur, prev_in, cur_in, rcase, strict=False):
    if prev is None or cur is None:
        return
    bad = (cur <= prev) if strict else (cur < prev)
    if bad:
        C.add(f'{site}|{"not-strictly-increasing" if strict else "not-monotone"}|{kind}',
              f'{site}: input {prev_in} -> {prev!r} but later input {cur_in} -> {cur!r}', rcase)


# ------------------------------------------------------------------------------------------------ millisecond points
def judge_ms(seq, n_full, CC, h, tag):
    """seq: increasing integer milliseconds. The first n_full are judged in full; any further element (the first point of
    the next chunk) is evaluated only for the order clauses. Returns the number of implementation calls."""
    csep, tu, Cat, Fore = _lib()
    e2d, d2e, sp_dt = csep.epoch_time_to_utc_datetime, csep.datetime_to_utc_epoch, csep.strptime_to_utc_datetime
    sp_ep, decyear, inv_dt, inv_ep = (tu.strptime_to_utc_epoch, tu.decimal_year, tu.decimal_year_to_utc_datetime,
                                      tu.decimal_year_to_utc_epoch)
    nev = 0
    NULL = Collector()
    fore = None
    if n_full:
        cat1 = Cat(data=[('0', 0, 0.0, 0.0, 0.0, 5.0)])
        fore = Fore(start_time=R.ms_to_datetime(seq[0]), end_time=R.ms_to_datetime(seq[n_full - 1] + 1), catalogs=[cat1])
    prev = None
    prev_ms = None
    np_inst = {}          # instant the direct numpy.int64 call gave (for get_datetimes attribution)
    for idx, ms in enumerate(seq):
        full = idx < n_full
        C = CC if full else NULL      # the look-ahead point is judged (and counted) by the next chunk
        us = ms * 1000
        ref_aw = R.ms_to_datetime(ms)
        ref_nv = R.ms_to_datetime(ms, aware=False)
        one = dict(kind='points', ms=[ms], tag=tag)
        pair = dict(kind='points', ms=[prev_ms, ms], tag=tag)
        cur = {}
        obs = [ms]

        # ---- ms -> datetime
        forms = (('int', ms), ('numpy.int64', numpy.int64(ms)), ('float', float(ms))) if full else (('int', ms),)
        D_int = None
        for form, arg in forms:
            nev += 1
            try:
                D = e2d(arg)
            except Exception as e:
                C.add(f'{TU}.epoch_time_to_utc_datetime|{type(e).__name__}|{form}', f'{type(e).__name__}: {e} for ms={ms}', one)
                obs.append(type(e).__name__)
                continue
            iu = _instant(D)
            obs.append(iu)
            if form == 'int':
                D_int = D
                cur['e2d'] = iu
            elif form == 'numpy.int64':
                np_inst[ms] = iu
            if iu != us:
                C.add(f'{TU}.epoch_time_to_utc_datetime|wrong-datetime|{form}',
                      f'epoch_time_to_utc_datetime({form} {ms}) expected {ref_aw.isoformat()} got {D!r}', one)

        # ---- datetime -> ms : round trip through the library's own datetime, reference aware, reference naive
        d2e_inputs = []
        if D_int is not None and isinstance(D_int, datetime.datetime):
            d2e_inputs.append(('roundtrip', D_int))
        if full:
            same = (D_int is not None and isinstance(D_int, datetime.datetime) and D_int.tzinfo is not None
                    and D_int == ref_aw and D_int.utcoffset() == datetime.timedelta(0))
            if not same:
                d2e_inputs.append(('aware', ref_aw))      # otherwise 'roundtrip' IS the aware call
            d2e_inputs.append(('naive', ref_nv))
            # other UTC-aware forms of the same datetime: a fixed zero offset, and the UTC zone object of zoneinfo
            d2e_inputs.append(('aware-zero-offset', ref_nv.replace(tzinfo=datetime.timezone(datetime.timedelta(0)))))
            if _ZI_UTC is not None:
                d2e_inputs.append(('aware-zoneinfo', ref_nv.replace(tzinfo=_ZI_UTC)))
        direct = None
        direct_ok = {}
        for form, arg in d2e_inputs:
            nev += 1
            try:
                M = d2e(arg)
            except Exception as e:
                C.add(f'{TU}.datetime_to_utc_epoch|{type(e).__name__}|{form}', f'{type(e).__name__}: {e} for {arg!r}', one)
                obs.append(type(e).__name__)
                continue
            obs.append(M)
            if form == 'roundtrip' and _instant(D_int) != us:
                # the library's datetime is already wrong (reported above); judge d2e against what it was given
                direct_ok[form] = _judge_d2e(C, M, _instant(D_int), 'library-datetime', one)
            else:
                direct_ok[form] = _judge_d2e(C, M, us, form if form != 'roundtrip' else 'aware', one)
                if form in ('roundtrip', 'aware'):
                    direct = M
            if _is_number(M):
                cur['d2e_' + form] = M
        # aligned dt -> ms -> dt: the second leg is e2d(ms) == the instant, already executed above when dt -> ms was
        # right; when it was wrong the failure is already reported and the second leg is not judged
        if full:
            for form in ('aware', 'naive', 'roundtrip'):
                if form in direct_ok and not direct_ok[form]:
                    C.count('dt_ms_dt_second_leg_not_judged_after_dt_to_ms_failure')
            if not all(direct_ok.values()):
                C.count('ms_instants_with_a_failing_direct_datetime_to_utc_epoch_call')

        # ---- strings
        variants = R.string_variants(us) if full else R.string_variants(us)[:1]
        if full:
            variants = variants + [('explicit-format-T', ref_nv.isoformat(timespec='microseconds'))]
            # explicit format= keyword with layouts other than the default ones (the fraction after '-', no separators at all,
            # a fraction in front, whole seconds only)
            variants = variants + [(v_, ref_nv.strftime(EXPLICIT_FORMATS[v_])) for v_ in ('explicit-format-dashes', 'explicit-format-compact', 'explicit-format-fraction-first')]
            if us % 1000000 == 0:
                variants = variants + [('explicit-format-whole-seconds', ref_nv.strftime(EXPLICIT_FORMATS['explicit-format-whole-seconds']))]
        for vname, s in variants:
            kw = dict(format=EXPLICIT_FORMATS[vname]) if vname in EXPLICIT_FORMATS else {}
            nev += 1
            try:
                Ds = sp_dt(s, **kw)
                iu = _instant(Ds)
                obs.append(iu)
                if iu != us:
                    C.add(f'{TU}.strptime_to_utc_datetime|wrong-datetime|{vname}',
                          f'strptime_to_utc_datetime({s!r}) expected {ref_aw.isoformat()} got {Ds!r}', one)
                if vname == 'fraction6':
                    cur['sp_dt'] = iu
            except Exception as e:
                C.add(f'{TU}.strptime_to_utc_datetime|{type(e).__name__}|{vname}', f'{type(e).__name__}: {e} for {s!r}', one)
                obs.append(type(e).__name__)
            nev += 1
            try:
                Ms = sp_ep(s, **kw)
                obs.append(Ms)
                _judge_indirect(C, f'{TU}.strptime_to_utc_epoch', vname, Ms, us, direct, one)
                if vname == 'fraction6' and _is_number(Ms):
                    cur['sp_ep'] = Ms
            except Exception as e:
                C.add(f'{TU}.strptime_to_utc_epoch|{type(e).__name__}|{vname}', f'{type(e).__name__}: {e} for {s!r}', one)
                obs.append(type(e).__name__)

        # ---- decimal year and its inverse
        dys = {}
        for form, arg in ((('aware', ref_aw), ('naive', ref_nv)) if full else (('aware', ref_aw),)):
            nev += 1
            try:
                dy = decyear(arg)
            except Exception as e:
                C.add(f'{TU}.decimal_year|{type(e).__name__}|{form}', f'{type(e).__name__}: {e} for {arg!r}', one)
                obs.append(type(e).__name__)
                continue
            obs.append(repr(dy))
            if not isinstance(dy, (float, numpy.floating)) or dy != dy:
                C.add(f'{TU}.decimal_year|not-a-float|{form}', f'decimal_year({arg!r}) = {dy!r}', one)
                continue
            dys[form] = float(dy)
            cur['dy_' + form] = float(dy)
        if full:
            todo = []
            if 'aware' in dys:
                todo.append(('aware', dys['aware']))
            if 'naive' in dys and dys.get('aware') != dys['naive']:
                todo.append(('naive', dys['naive']))
            for form, dy in todo:
                nev += 1
                try:
                    Di = inv_dt(dy)
                    iu = _instant(Di)
                    obs.append(iu)
                    if iu is None or abs(iu - us) > 1000:
                        C.add(f'{TU}.decimal_year_to_utc_datetime|inverse-off-by-more-than-1ms|millisecond-instant',
                              f'decimal_year({ref_aw.isoformat()}) = {dy!r}; decimal_year_to_utc_datetime gives {Di!r}, '
                              f'{None if iu is None else iu - us} us away', one)
                    else:
                        C.count('inverse_abs_error_us_sum', abs(iu - us))
                        cur_max = C.counters.get('_max_inv_err', 0)
                        if abs(iu - us) > cur_max:
                            C.counters['_max_inv_err'] = abs(iu - us)
                except Exception as e:
                    C.add(f'{TU}.decimal_year_to_utc_datetime|{type(e).__name__}|millisecond-instant', f'{type(e).__name__}: {e} for {dy!r}', one)
                    obs.append(type(e).__name__)
                nev += 1
                try:
                    Mi = inv_ep(dy)
                    obs.append(Mi)
                    # "within a millisecond": the integer must be within 1 ms of the instant's millisecond
                    _judge_indirect(C, f'{TU}.decimal_year_to_utc_epoch', 'millisecond-instant', Mi, us, None, one, slack_ms=1,
                                    failclass='inverse-off-by-more-than-1ms')
                except Exception as e:
                    C.add(f'{TU}.decimal_year_to_utc_epoch|{type(e).__name__}|millisecond-instant', f'{type(e).__name__}: {e} for {dy!r}', one)
                    obs.append(type(e).__name__)

            # ---- thin user: CatalogForecast.start_epoch / end_epoch
            for attr, form, arg in (('start', 'aware', ref_aw), ('end', 'naive', ref_nv)):
                nev += 1
                try:
                    setattr(fore, attr + '_time', arg)
                    Mf = getattr(fore, attr + '_epoch')
                    obs.append(Mf)
                    _judge_indirect(C, f'csep.core.forecasts.CatalogForecast.{attr}_epoch', form, Mf, us, direct, one)
                except Exception as e:
                    C.add(f'csep.core.forecasts.CatalogForecast.{attr}_epoch|{type(e).__name__}|{form}', f'{type(e).__name__}: {e} for {arg!r}', one)
                    obs.append(type(e).__name__)

        # ---- order along the sequence
        if prev is not None:
            _order(CC, f'{TU}.epoch_time_to_utc_datetime', tag, prev.get('e2d'), cur.get('e2d'), prev_ms, ms, pair)
            for form in ('roundtrip', 'aware', 'naive'):
                _order(CC, f'{TU}.datetime_to_utc_epoch', tag, prev.get('d2e_' + form), cur.get('d2e_' + form), prev_ms, ms, pair)
            _order(CC, f'{TU}.strptime_to_utc_datetime', tag, prev.get('sp_dt'), cur.get('sp_dt'), prev_ms, ms, pair)
            _order(CC, f'{TU}.strptime_to_utc_epoch', tag, prev.get('sp_ep'), cur.get('sp_ep'), prev_ms, ms, pair)
            ycls = tag + ('-across-year' if R.ms_to_datetime(prev_ms).year != ref_aw.year else '')
            for form in ('aware', 'naive'):
                _order(CC, f'{TU}.decimal_year', ycls, prev.get('dy_' + form), cur.get('dy_' + form), prev_ms, ms, pair, strict=True)
        prev, prev_ms = cur, ms
        h.update(repr(obs).encode())

    # ---- thin user: CSEPCatalog.get_datetimes on one catalog holding every millisecond of the chunk
    if n_full:
        pts = seq[:n_full]
        cat = Cat(data=[(str(i), m, 0.0, 0.0, 0.0, 5.0) for i, m in enumerate(pts)])
        nev += len(pts)
        site = 'csep.core.catalogs.CSEPCatalog.get_datetimes'
        try:
            dts = cat.get_datetimes()
        except Exception as e:
            CC.add(f'{site}|{type(e).__name__}|numpy.int64-origin-time', f'{type(e).__name__}: {e}', dict(kind='points', ms=pts[:1], tag=tag))
            dts = None
        if dts is not None:
            if len(dts) != len(pts):
                CC.add(f'{site}|wrong-length|numpy.int64-origin-time', f'{len(dts)} datetimes for {len(pts)} events',
                      dict(kind='points', ms=pts[:3], tag=tag))
            gl = []
            for m, D in zip(pts, dts):
                iu = _instant(D)
                gl.append(iu)
                if iu != m * 1000:
                    if iu is not None and np_inst.get(m) == iu:
                        CC.count(f'indirect_reproductions_of_epoch_time_to_utc_datetime_failure[{site}]')
                    else:
                        CC.add(f'{site}|wrong-datetime|numpy.int64-origin-time',
                              f'event with origin_time {m}: expected {R.ms_to_datetime(m).isoformat()} got {D!r}',
                              dict(kind='points', ms=[m], tag=tag))
            h.update(repr(gl).encode())
    return nev


# ------------------------------------------------------------------------------------------------ microsecond points
def judge_us(seq, n_full, CC, h):
    """seq: increasing integer microseconds (every phase, aligned ones included)."""
    csep, tu, Cat, Fore = _lib()
    e2d, d2e, sp_dt = csep.epoch_time_to_utc_datetime, csep.datetime_to_utc_epoch, csep.strptime_to_utc_datetime
    sp_ep, decyear, inv_dt, inv_ep = (tu.strptime_to_utc_epoch, tu.decimal_year, tu.decimal_year_to_utc_datetime,
                                      tu.decimal_year_to_utc_epoch)
    nev = 0
    NULL = Collector()
    cat1 = Cat(data=[('0', 0, 0.0, 0.0, 0.0, 5.0)])
    fore = Fore(start_time=R.us_to_datetime(seq[0]), end_time=R.us_to_datetime(seq[-1] + 1), catalogs=[cat1])
    tag = 'consecutive-us'
    prev = None
    prev_us = None
    for idx, us in enumerate(seq):
        full = idx < n_full
        C = CC if full else NULL      # the look-ahead point is judged (and counted) by the next chunk
        ref_aw = R.us_to_datetime(us)
        ref_nv = R.us_to_datetime(us, aware=False)
        one = dict(kind='us_points', us=[us])
        pair = dict(kind='us_points', us=[prev_us, us])
        cands = R.ms_candidates(us)
        cur = {}
        obs = [us]
        direct = None
        for form, arg in ((('aware', ref_aw), ('naive', ref_nv)) if full else (('aware', ref_aw),)):
            nev += 1
            try:
                M = d2e(arg)
            except Exception as e:
                C.add(f'{TU}.datetime_to_utc_epoch|{type(e).__name__}|{form}', f'{type(e).__name__}: {e} for {arg!r}', one)
                obs.append(type(e).__name__)
                continue
            obs.append(M)
            ok = _judge_d2e(C, M, us, form, one)
            if form == 'aware':
                direct = M
            if _is_number(M):
                cur['d2e_' + form] = M
            # ... and back: within one millisecond of the datetime we started from
            if full and ok:
                nev += 1
                try:
                    Db = e2d(M)
                    iu = _instant(Db)
                    obs.append(iu)
                    if iu is None or abs(iu - us) >= 1000 or (len(cands) == 1 and iu != us):
                        C.add(f'{TU}.epoch_time_to_utc_datetime|dt-ms-dt-not-within-1ms|{form}',
                              f'{arg!r} -> {M} -> {Db!r}', one)
                except Exception as e:
                    C.add(f'{TU}.epoch_time_to_utc_datetime|{type(e).__name__}|{form}', f'{type(e).__name__}: {e} for ms={M!r}', one)
                    obs.append(type(e).__name__)
        variants = R.string_variants(us)[:2] if full else R.string_variants(us)[:1]
        for vname, s in variants:
            nev += 1
            try:
                Ds = sp_dt(s)
                iu = _instant(Ds)
                obs.append(iu)
                if iu != us:
                    C.add(f'{TU}.strptime_to_utc_datetime|wrong-datetime|{vname}',
                          f'strptime_to_utc_datetime({s!r}) expected {ref_aw.isoformat()} got {Ds!r}', one)
                if vname == 'fraction6':
                    cur['sp_dt'] = iu
            except Exception as e:
                C.add(f'{TU}.strptime_to_utc_datetime|{type(e).__name__}|{vname}', f'{type(e).__name__}: {e} for {s!r}', one)
                obs.append(type(e).__name__)
            nev += 1
            try:
                Ms = sp_ep(s)
                obs.append(Ms)
                _judge_indirect(C, f'{TU}.strptime_to_utc_epoch', vname, Ms, us, direct, one)
                if vname == 'fraction6' and _is_number(Ms):
                    cur['sp_ep'] = Ms
            except Exception as e:
                C.add(f'{TU}.strptime_to_utc_epoch|{type(e).__name__}|{vname}', f'{type(e).__name__}: {e} for {s!r}', one)
                obs.append(type(e).__name__)
        # decimal year
        nev += 1
        dy = None
        try:
            dy = decyear(ref_aw)
            obs.append(repr(dy))
            if not isinstance(dy, (float, numpy.floating)) or dy != dy:
                C.add(f'{TU}.decimal_year|not-a-float|aware', f'decimal_year({ref_aw!r}) = {dy!r}', one)
                dy = None
            else:
                dy = float(dy)
                cur['dy'] = dy
        except Exception as e:
            C.add(f'{TU}.decimal_year|{type(e).__name__}|aware', f'{type(e).__name__}: {e} for {ref_aw!r}', one)
            obs.append(type(e).__name__)
        if full and dy is not None:
            nev += 1
            try:
                Di = inv_dt(dy)
                iu = _instant(Di)
                obs.append(iu)
                if iu is None or abs(iu - us) > 1000:
                    C.add(f'{TU}.decimal_year_to_utc_datetime|inverse-off-by-more-than-1ms|microsecond-instant',
                          f'decimal_year({ref_aw.isoformat()}) = {dy!r}; decimal_year_to_utc_datetime gives {Di!r}, '
                          f'{None if iu is None else iu - us} us away', one)
                else:
                    if abs(iu - us) > C.counters.get('_max_inv_err', 0):
                        C.counters['_max_inv_err'] = abs(iu - us)
            except Exception as e:
                C.add(f'{TU}.decimal_year_to_utc_datetime|{type(e).__name__}|microsecond-instant', f'{type(e).__name__}: {e} for {dy!r}', one)
                obs.append(type(e).__name__)
            nev += 1
            try:
                Mi = inv_ep(dy)
                obs.append(Mi)
                _judge_indirect(C, f'{TU}.decimal_year_to_utc_epoch', 'microsecond-instant', Mi, us, None, one, slack_ms=1,
                                    failclass='inverse-off-by-more-than-1ms')
            except Exception as e:
                C.add(f'{TU}.decimal_year_to_utc_epoch|{type(e).__name__}|microsecond-instant', f'{type(e).__name__}: {e} for {dy!r}', one)
                obs.append(type(e).__name__)
        if full:
            nev += 1
            try:
                fore.start_time = ref_aw
                Mf = fore.start_epoch
                obs.append(Mf)
                _judge_indirect(C, 'csep.core.forecasts.CatalogForecast.start_epoch', 'aware', Mf, us, direct, one)
            except Exception as e:
                C.add(f'csep.core.forecasts.CatalogForecast.start_epoch|{type(e).__name__}|aware', f'{type(e).__name__}: {e} for {ref_aw!r}', one)
                obs.append(type(e).__name__)
        if prev is not None:
            for form in ('aware', 'naive'):
                _order(CC, f'{TU}.datetime_to_utc_epoch', tag, prev.get('d2e_' + form), cur.get('d2e_' + form), prev_us, us, pair)
            _order(CC, f'{TU}.strptime_to_utc_datetime', tag, prev.get('sp_dt'), cur.get('sp_dt'), prev_us, us, pair)
            _order(CC, f'{TU}.strptime_to_utc_epoch', tag, prev.get('sp_ep'), cur.get('sp_ep'), prev_us, us, pair)
            a, b = prev.get('dy'), cur.get('dy')
            if a is not None and b is not None:
                if b < a:
                    CC.add(f'{TU}.decimal_year|decreasing|{tag}', f'decimal_year at {prev_us} us = {a!r} > {b!r} at {us} us', pair)
                elif b == a:
                    CC.count('ambiguous_skipped_decimal_year_ties_at_1us_spacing')
        prev, prev_us = cur, us
        h.update(repr(obs).encode())
    return nev


# ------------------------------------------------------------------------------------------------ decimal-year inputs
def decimal_years_of(case):
    """The float decimal years of a 'decyear' case, increasing, inside [1900, 2200]."""
    ys = set()
    nsub, kulp = case['nsub'], case['kulp']
    for Y in range(case['y0'], case['y1'] + 1):
        x = float(Y)
        lo = hi = x
        ys.add(x)
        for _ in range(kulp):
            lo = float(numpy.nextafter(lo, -numpy.inf))
            hi = float(numpy.nextafter(hi, numpy.inf))
            ys.add(lo)
            ys.add(hi)
        if Y < 2200:
            for j in range(1, nsub):
                ys.add(Y + j / nsub)
    return sorted(y for y in ys if 1900.0 <= y <= 2200.0)


def judge_decimal_years(ys, C, h):
    csep, tu, Cat, Fore = _lib()
    nev = 0
    nontrivial = 0
    for y in ys:
        one = dict(kind='decyear_points', ys=[y])
        obs = [repr(y)]
        exact = R.exact_instant_of_decimal_year(y)
        near_year = abs(y - round(y)) <= 64 * 4.6e-13
        nontrivial += 1 if near_year else 0
        nev += 1
        try:
            D = tu.decimal_year_to_utc_datetime(y)
        except Exception as e:
            C.add(f'{TU}.decimal_year_to_utc_datetime|{type(e).__name__}|decimal-year-input', f'{type(e).__name__}: {e} for {y!r}', one)
            h.update(repr(obs + [type(e).__name__]).encode())
            continue
        iu = _instant(D)
        obs.append(iu)
        if iu is None:
            C.add(f'{TU}.decimal_year_to_utc_datetime|not-a-datetime|decimal-year-input', f'{y!r} -> {D!r}', one)
            h.update(repr(obs).encode())
            continue
        # information only (the text does not fix the meaning of a decimal year that is not an image of decimal_year)
        if abs(iu - exact) > 1000:
            C.count('info_inverse_more_than_1ms_from_calendar_reference')
        # text-derived: D is an instant; its decimal year must invert back to within a millisecond of D
        nev += 1
        try:
            dy = tu.decimal_year(D)
            obs.append(repr(dy))
        except Exception as e:
            C.add(f'{TU}.decimal_year|{type(e).__name__}|library-datetime', f'{type(e).__name__}: {e} for {D!r}', one)
            h.update(repr(obs).encode())
            continue
        nev += 1
        try:
            D2 = tu.decimal_year_to_utc_datetime(dy)
            iu2 = _instant(D2)
            obs.append(iu2)
            if iu2 is None or abs(iu2 - iu) > 1000:
                C.add(f'{TU}.decimal_year_to_utc_datetime|inverse-off-by-more-than-1ms|decimal-year-input',
                      f'y={y!r} -> {D!r} -> decimal_year {dy!r} -> {D2!r} ({None if iu2 is None else iu2 - iu} us away)', one)
            elif abs(iu2 - iu) > C.counters.get('_max_inv_err', 0):
                C.counters['_max_inv_err'] = abs(iu2 - iu)
        except Exception as e:
            C.add(f'{TU}.decimal_year_to_utc_datetime|{type(e).__name__}|decimal-year-input', f'{type(e).__name__}: {e} for {dy!r}', one)
        # the epoch variant of the same decimal year is the datetime variant's millisecond (floor or ceiling)
        nev += 1
        try:
            M = tu.decimal_year_to_utc_epoch(y)
            obs.append(M)
            cands = R.ms_candidates(iu)
            if not (_is_number(M) and M in cands):
                if len(cands) == 1 and _is_number(M) and abs(M - cands[0]) == 1 and M == _float_path_ms(iu):
                    C.count(f'indirect_reproductions_of_datetime_to_utc_epoch_failure[{TU}.decimal_year_to_utc_epoch]')
                    # same defect, reported with its own signature through the direct call on this datetime
                    nev += 1
                    _judge_d2e(C, csep.datetime_to_utc_epoch(D), iu, 'library-datetime', dict(kind='points', ms=[cands[0]], tag='consecutive-ms'))
                else:
                    C.add(f'{TU}.decimal_year_to_utc_epoch|disagrees-with-decimal_year_to_utc_datetime|decimal-year-input',
                          f'y={y!r}: datetime variant {D!r}, epoch variant {M!r}, admissible {cands}', one)
        except Exception as e:
            C.add(f'{TU}.decimal_year_to_utc_epoch|{type(e).__name__}|decimal-year-input', f'{type(e).__name__}: {e} for {y!r}', one)
        h.update(repr(obs).encode())
    return nev, nontrivial


# ----------------------------------------------------------------------------------------------------------- run_case
def _nontrivial_ms(ms):
    return ms % 1000 != 0 or ms % 60000 == 0


TZS = ['PST8PDT', 'XJP-9', 'XNP-5:45', 'UTC0']


try:
    import zoneinfo
    _ZI_UTC = zoneinfo.ZoneInfo('UTC')
except Exception:          # no time-zone database in this environment: the form is not explored
    _ZI_UTC = None


def run_case(case):        # a case with a 'tz' key runs under that process time zone (mc.engine.call_case)
    C = Collector()
    h = hashlib.sha1()
    kind = case['kind']
    if kind in ('window', 'lattice', 'points'):
        if kind == 'window':
            pts = list(range(case['lo'], case['hi'] + 1))
            tag = 'consecutive-ms'
            extra = [] if case.get('last') else [case['hi'] + 1]
        elif kind == 'lattice':
            drop = set(case['drop'])
            allp = [case['start'] + j * case['step'] for j in range(case['n'])]
            pts = [m for m in allp if m not in drop]
            tag = case['tag']
            extra = [] if case.get('last') else [case['start'] + case['n'] * case['step']]
        else:
            pts = [int(m) for m in case['ms']]
            tag = case.get('tag', 'consecutive-ms')
            extra = []
        nev = judge_ms(pts + extra, len(pts), C, h, tag) if pts else 0
        states = len(pts)
        nontrivial = sum(1 for m in pts if _nontrivial_ms(m))
        sample = dict(kind=kind, name=case.get('name'), first_ms=pts[0] if pts else None, last_ms=pts[-1] if pts else None,
                      n=len(pts), first_utc=R.ms_to_datetime(pts[0]).isoformat() if pts else None)
    elif kind in ('usphase', 'us_points'):
        if kind == 'usphase':
            pts = list(range(case['lo'], case['hi'] + 1))
            extra = [] if case.get('last') else [case['hi'] + 1]
        else:
            pts = [int(u) for u in case['us']]
            extra = []
        nev = judge_us(pts + extra, len(pts), C, h)
        states = nontrivial = sum(1 for u in pts if u % 1000 != 0)   # aligned ones belong to the millisecond families
        sample = dict(kind=kind, name=case.get('name'), first_us=pts[0], last_us=pts[-1], n=len(pts))
    elif kind in ('decyear', 'decyear_points'):
        ys = decimal_years_of(case) if kind == 'decyear' else [float(y) for y in case['ys']]
        nev, nontrivial = judge_decimal_years(ys, C, h)
        states = len(ys)
        sample = dict(kind=kind, first=ys[0], last=ys[-1], n=len(ys))
    else:
        raise ValueError('unknown case kind ' + repr(kind))
    counters = C.all_counters()
    mx = counters.pop('_max_inv_err', None)
    sets = {'inverse_abs_error_us_values': [mx]} if mx is not None else {}
    counters['instants[' + ('ms' if kind in ('window', 'lattice', 'points') else 'us' if kind in ('usphase', 'us_points') else 'decimal-year') + ']'] = states
    return result(evals=nev, states=states, transitions=nev, nontrivial=nontrivial, failures=C.fails, digest=h.hexdigest(),
                  counters=counters, sets=sets, sample=sample)


def finish(agg, tier):
    c = agg['counters']
    ev = dict(bounds=_bounds(tier), seed_block='quick tier only: lattice residue index 1 + VERIF_SEED % 15, every 3rd point from offset (VERIF_SEED // 15) % 3; '
                         'every such block is a subset of the thorough tier',
              ambiguous_skipped=c.get('ambiguous_skipped_decimal_year_ties_at_1us_spacing', 0))
    errs = [e for e in agg['sets'].get('inverse_abs_error_us_values', ()) if e is not None]
    if errs:
        ev['decimal_year_inverse_max_abs_error_us'] = max(errs)
    n_ms = c.get('instants[ms]', 0)
    n_bad = c.get('failing_calls[' + SIG_TRUNC + ']', 0)
    if n_ms:
        ev['datetime_to_utc_epoch_float_truncation'] = dict(
            failing_direct_calls=n_bad, millisecond_instants=n_ms,
            millisecond_instants_failing=c.get('ms_instants_with_a_failing_direct_datetime_to_utc_epoch_call', 0))
    return dict(evidence=ev)
