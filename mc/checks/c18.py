"""C18 Evaluation results and regions survive serialization.

Part 1  every public evaluation function x a complete small grid of inputs -> csep.write_json ->
        csep.load_evaluation_result, compared field by field after JSON normalisation.
Part 2  every unmasked Cartesian lattice of a complete small family -> to_dict -> from_dict (directly, through
        JSON text, through a catalog dictionary) and a differential probe of get_index_of.

No reference partition / statistic is needed: the oracle is the identity (what was produced must come back).
"""
import contextlib
import hashlib
import itertools
import json
import math
import os
import signal

import numpy

from mc import fixtures, floats, space
from mc.engine import Fail, result

ID = 'C18'
RULE = ('PART 1: each of the 19 public evaluation functions (poisson N/L/CL/S/M/paired-T/W, NBD-N, binary S/CL/'
        'paired-T, Brier, catalog N/S/M/PL/resampled-M/MLL-M, calibration) is run on EVERY element of a complete '
        'grid: gridded forecasts = all assignments of rates {0,0.5,2} (thorough +{1e-12,1e3}) to the 4 bins of a '
        '2-cell x 2-magnitude-bin region x all observed multisets of <=2 (thorough <=3) events over the 4 bins x '
        '(seed,num_simulations) in {(1,3)} (thorough +(2,1),(7,4)); paired tests x benchmark in {self, all-0.5, '
        'all-2, reversed} (thorough: all 81 for <=2 events, the four basic ones for 3 events); catalog forecasts = '
        'all multisets of 2 catalogs of <=2 events and of 3 catalogs of <=1 event (thorough: 3 catalogs of <=2 '
        'events) x the same observations; calibration over the results of each catalog test on the observations of '
        'each size and up to each size, delta_1 in {False,True}; a names block '
        '(empty / quoted / non-ASCII / None names); a numeric-type block: every gridded and paired function on '
        'all rate assignments over {0,2} (thorough {0,1,2}) x observations of <=1 (thorough <=2) events x the 8 '
        'non-default (rate dtype, magnitude-bin dtype) pairs over {float64,int64,float32}, and every catalog function '
        'with int64 / float32 magnitude bins. Every produced result is written with csep.write_json and '
        'loaded with csep.load_evaluation_result, once at a fresh path and once over an existing longer result file at the same path. A (function, input) pair is distinct by construction; it is '
        'non-trivial iff the produced result holds a non-finite or NaN number, a None, a tuple-valued quantile or '
        'sim_name, a string-bearing distribution, or is of a subclass of EvaluationResult. '
        'PART 2: lattices = dh {0.1,0.25,1.0,0.5} x 6 anchors, 5 non-decimal spacings, 3 lattices with longitudes at/above 180 (0..360 convention), plus ONE further (dh, anchor) block out of 6 (dh 0.05/'
        '0.2/0.1, anchors incl. (179,89)) selected by VERIF_SEED (thorough: all 6 blocks) x every '
        'non-empty subset of cells of every extent nx,ny in 1..3 with nx*ny<=6, plus the full 3x3 (thorough: every '
        'subset of 3x3) x cell order row-major/column-major/reversed, de-duplicated on the ordered origin list; each '
        'is rebuilt via to_dict->from_dict, via JSON text, via a catalog dict and via a catalog dict through JSON '
        'text, and probed at every bounding-box cell corner with its +-2 ulp neighbours (axis-wise and diagonal; '
        'thorough: full 5x5 block), every cell centre and the ring of cell centres one cell outside. A lattice is '
        'non-trivial iff it has >= 2 cells (an index map that can be permuted).')
ASSUMPTIONS = ['identity oracle: no reference statistic; equality is exact after JSON normalisation (tuple==list, numpy '
               'scalar==python scalar, int==float of equal value, NaN==NaN, +-inf preserved)',
               'string-valued test distributions (W-test "normal") and string members of mixed distributions '
               '("poisson", N) are outside "numeric test distribution": counted, not judged',
               'inputs on which an evaluation function raises produce no result and are counted, not judged; a function '
               'that raises on EVERY input of the run is reported as producer-raises:<ExcType> (owned by C05-C10)',
               'binary/Brier rejection loops are run with a 2000-draw horizon on numpy.random.uniform; inputs that '
               'exhaust it are outside the precondition (DESIGN 4.1)',
               'rejections of a region are observed with get_index_of itself (scalar call per rejected probe); '
               'get_masked is only used to batch the accepted probes into one vector get_index_of call',
               'obs_catalog_repr, region name and region magnitudes are not named by the property and are not compared']

# --------------------------------------------------------------------------------------------- part 1 inputs
DH = 0.1
ORIGINS = [(0.0, 0.0), (0.1, 0.0)]
MAGS = [5.0, 6.0]
T0 = 1262304000000  # 2010-01-01
NBINS = 4           # bin = cell * 2 + magnitude bin
RATES_Q = [0.0, 0.5, 2.0]
RATES_T = [0.0, 0.5, 2.0, 1e-12, 1e3]
SIMS_Q = [(1, 3)]
SIMS_T = [(1, 3), (2, 1), (7, 4)]
NBD_VARIANCE = 10.0

GRIDDED = ['poisson.number_test', 'poisson.likelihood_test', 'poisson.conditional_likelihood_test',
           'poisson.spatial_test', 'poisson.magnitude_test', 'binomial.negative_binomial_number_test',
           'binomial.binary_spatial_test', 'binomial.binary_conditional_likelihood_test', 'brier.brier_score_test']
SIMULATED = {'poisson.likelihood_test', 'poisson.conditional_likelihood_test', 'poisson.spatial_test',
             'poisson.magnitude_test', 'binomial.binary_spatial_test', 'binomial.binary_conditional_likelihood_test',
             'brier.brier_score_test'}
PAIRED = ['poisson.paired_t_test', 'poisson.w_test', 'binomial.binary_paired_t_test']
CATALOG = ['catalog.number_test', 'catalog.spatial_test', 'catalog.magnitude_test', 'catalog.pseudolikelihood_test',
           'catalog.resampled_magnitude_test', 'catalog.MLL_magnitude_test']
CALIB_SOURCES = ['catalog.number_test', 'catalog.spatial_test', 'catalog.magnitude_test',
                 'catalog.pseudolikelihood_test']
DTYPES_EXTRA = [[d, m] for d in ('float64', 'int64', 'float32') for m in ('float64', 'int64', 'float32')
                if (d, m) != ('float64', 'float64')]
NAMES = ['', 'x', 'né "q" \\ \n', None,
         # names that look like the structure of the file they are stored in, or carry significant white space
         'ETAS [ b = 1.0 ]', '[ 1.0,  2.0 ]', '{ "a" : [ 1 , 2 ] }', '  padded  ', 'a,b;c:d', 'NaN', 'null', '1e5', 'tab\there']

MODULES = {'poisson': 'csep.core.poisson_evaluations', 'binomial': 'csep.core.binomial_evaluations',
           'brier': 'csep.core.brier_evaluations', 'catalog': 'csep.core.catalog_evaluations'}


def site(func):
    mod, name = func.split('.')
    return f'{MODULES[mod]}.{name}'


def observations(max_events):
    return [list(m) for m in space.multisets(range(NBINS), 0, max_events)]


def benchmarks_basic(r):
    out = []
    for b in (list(r), [0.5] * NBINS, [2.0] * NBINS, list(r)[::-1]):
        if b not in out:
            out.append(b)
    return out


def catalog_forecasts(tier):
    c1 = [list(m) for m in space.multisets(range(NBINS), 0, 1)]
    c2 = [list(m) for m in space.multisets(range(NBINS), 0, 2)]
    out = [list(f) for f in itertools.combinations_with_replacement(c2, 2)]
    seen = {json.dumps(f) for f in out}
    three = itertools.combinations_with_replacement(c2 if tier == 'thorough' else c1, 3)
    for f in three:
        f = list(f)
        if json.dumps(f) not in seen:
            out.append(f)
    out.sort(key=lambda f: (sum(len(c) for c in f), len(f), f))
    return out


# --------------------------------------------------------------------------------------------- part 2 inputs
DHS_Q = [0.1, 0.25, 1.0, 0.5]
ANCHORS_Q = [(0.0, 0.0), (-0.3, -0.2), (-125.4, 31.5), (165.7, -47.8), (4.9, 35.3), (-180.0, -90.0)]
# further (dh, anchor) blocks: quick takes the one selected by VERIF_SEED, thorough takes all of them
SEED_BLOCKS = [(0.05, (0.0, 0.0)), (0.2, (-125.4, 31.5)), (0.05, (179.0, 89.0)), (0.2, (179.0, 89.0)),
               (0.1, (179.0, 89.0)), (0.2, (165.7, -47.8))]


def orderings(cells):
    rm = sorted(cells, key=lambda c: (c[1], c[0]))
    cm = sorted(cells, key=lambda c: (c[0], c[1]))
    out = []
    for o in (rm, cm, rm[::-1]):
        if o not in out:
            out.append(o)
    return out


def shapes(tier):
    """Ordered cell lists [(i, j), ...] (column i, row j relative to the anchor), simplest first, no repeats."""
    extents = [(nx, ny) for nx in (1, 2, 3) for ny in (1, 2, 3) if nx * ny <= 6]
    subsets = set()
    for nx, ny in extents:
        cells = [(i, j) for j in range(ny) for i in range(nx)]
        for sub in space.subsets(cells, 1):
            subsets.add(tuple(sorted(sub)))
    full33 = [(i, j) for j in range(3) for i in range(3)]
    if tier == 'thorough':
        for sub in space.subsets(full33, 1):
            subsets.add(tuple(sorted(sub)))
    else:
        subsets.add(tuple(sorted(full33)))
    out = []
    for sub in sorted(subsets, key=lambda s: (len(s), s)):
        for o in orderings(list(sub)):
            out.append([list(c) for c in o])
    return out


# --------------------------------------------------------------------------------------------- cases
def cases(tier, seed):
    thorough = tier == 'thorough'
    sims = SIMS_T if thorough else SIMS_Q
    obs = observations(3 if thorough else 2)
    rates = [list(r) for r in space.assignments(NBINS, RATES_T if thorough else RATES_Q)]
    if thorough:  # keep the quick grid first (simplest first), then the rest
        q = [list(r) for r in space.assignments(NBINS, RATES_Q)]
        rates = q + [r for r in rates if r not in q]
    # names block first: smallest
    yield dict(kind='names')
    for func in GRIDDED:
        for chunk in space.chunks(rates, 9):
            yield dict(kind='gridded', func=func, rates=chunk, obs=obs, sims=sims if func in SIMULATED else [None])
    rates81 = [list(r) for r in space.assignments(NBINS, RATES_Q)]
    obs2 = observations(2)
    for func in PAIRED:
        for chunk in space.chunks(rates81, 1 if thorough else 9):
            yield dict(kind='paired', func=func, rates=chunk, bench='all' if thorough else 'basic', obs=obs2)
        if thorough:    # three-event observations with the basic benchmarks only (81*81*35 is out of budget)
            for chunk in space.chunks(rates81, 9):
                yield dict(kind='paired', func=func, rates=chunk, bench='basic', obs=[o for o in obs if len(o) == 3])
    fcs = catalog_forecasts(tier)
    for func in CATALOG:
        for chunk in space.chunks(fcs, 5):
            yield dict(kind='catalog', func=func, forecasts=chunk, obs=obs)
    for chunk in space.chunks(fcs, 2):
        yield dict(kind='calibration', forecasts=chunk, obs=obs)
    # numeric-type block: the same functions on forecasts whose rate array / magnitude-bin array is not float64
    dt_rates = [list(r) for r in space.assignments(NBINS, [0, 1, 2] if thorough else [0, 2])]
    dt_rates.sort(key=lambda r: (sum(1 for v in r if v == 1), r))     # the quick grid {0,2}^4 first
    dt_obs = observations(2 if thorough else 1)
    for func in GRIDDED:
        for chunk in space.chunks(dt_rates, 3 if thorough else 4):
            yield dict(kind='gridded', func=func, rates=chunk, obs=dt_obs, dtypes=DTYPES_EXTRA,
                       sims=SIMS_Q if func in SIMULATED else [None])
    for func in PAIRED:
        for chunk in space.chunks(dt_rates, 1 if thorough else 4):
            yield dict(kind='paired', func=func, rates=chunk, bench='basic', obs=dt_obs, dtypes=DTYPES_EXTRA)
    dt_fcs = fcs if thorough else [f for f in fcs if len(f) == 2 and all(len(c) <= 1 for c in f)]
    for func in CATALOG:
        for chunk in space.chunks(dt_fcs, 5):
            yield dict(kind='catalog', func=func, forecasts=chunk, obs=dt_obs,
                       dtypes=[[None, 'int64'], [None, 'float32']])
    # regions
    shp = shapes(tier)
    mode = 'block' if thorough else 'cross'
    pairs = [(dh, a) for dh in DHS_Q for a in ANCHORS_Q]
    # spacings whose cell origins need more than six decimals (binary fractions 1/128, 1/1024; 1/3; an arc-minute)
    pairs += [(0.0078125, (0.0, 0.0)), (0.0078125, (-0.5, 1.0)), (0.0009765625, (10.0, -20.0)), (1.0 / 3.0, (0.0, 0.0)), (1.0 / 60.0, (10.0, 45.0))]
    # lattices that cross or lie beyond the antimeridian in the 0..360 longitude convention
    pairs += [(1.0, (178.0, -1.0)), (0.5, (179.5, 10.0)), (1.0, (357.0, 0.0))]
    if thorough:
        pairs += SEED_BLOCKS                              # every seed-selectable block
    else:
        pairs.append(SEED_BLOCKS[seed % len(SEED_BLOCKS)])  # VERIF_SEED only selects one more complete block
    for dh, a in pairs:
        for chunk in space.chunks(shp, 12 if thorough else 25):
            yield dict(kind='region', dh=dh, anchor=list(a), lattices=chunk, mode=mode)
    # complete global lattices (45 and 30 degrees) with longitude running fastest / latitude running fastest, under the names a
    # user or the library would give them
    for dh_ in (45.0, 30.0):
        nx_, ny_ = int(360 / dh_), int(180 / dh_)
        lonfast = [[i, j] for j in range(ny_) for i in range(nx_)]
        latfast = [[i, j] for i in range(nx_) for j in range(ny_)]
        for nm_ in ('global', 'world', 'verif'):
            yield dict(kind='region', dh=dh_, anchor=[-180.0, -90.0], lattices=[lonfast, latfast, lonfast[::-1]], mode='cross', name=nm_)


# --------------------------------------------------------------------------------------------- harness guards
class Horizon(Exception):
    """The binary/Brier rejection loop asked for more uniform draws than the stated horizon."""


@contextlib.contextmanager
def horizon(limit=2000):
    real = numpy.random.uniform
    n = [0]

    def counted(*a, **k):
        n[0] += 1
        if n[0] > limit:
            raise Horizon(f'more than {limit} draws')
        return real(*a, **k)
    numpy.random.uniform = counted
    try:
        yield
    finally:
        numpy.random.uniform = real


class HarnessTimeout(Exception):
    """Raised by the wall-clock guard; every handler below re-raises it so that it reaches the engine."""


@contextlib.contextmanager
def wallguard(seconds=120):
    """A hang of the library inside a worker must surface as a harness error, never as a silent stall."""
    def onalarm(signum, frame):
        raise HarnessTimeout(f'library call exceeded {seconds} s')
    try:
        old = signal.signal(signal.SIGALRM, onalarm)
    except ValueError:  # not in the main thread
        yield
        return
    signal.setitimer(signal.ITIMER_REAL, seconds)
    try:
        yield
    finally:
        signal.setitimer(signal.ITIMER_REAL, 0)
        signal.signal(signal.SIGALRM, old)


# --------------------------------------------------------------------------------------------- normal form
def jnorm(x):
    """JSON normal form: tuple==list, numpy scalar==python scalar, NaN==NaN, +-inf preserved, str stays str."""
    if x is None:
        return ('none',)
    if isinstance(x, (bool, numpy.bool_)):
        return ('bool', bool(x))
    if isinstance(x, str):
        return ('str', x)
    if isinstance(x, (int, numpy.integer)):
        return ('num', int(x))
    if isinstance(x, (float, numpy.floating)):
        x = float(x)
        if math.isnan(x):
            return ('nan',)
        return ('num', x)
    if isinstance(x, numpy.ndarray):
        return ('seq', tuple(jnorm(v) for v in x.tolist())) if x.ndim else jnorm(x.item())
    if isinstance(x, (list, tuple)):
        return ('seq', tuple(jnorm(v) for v in x))
    return ('other', type(x).__name__, repr(x))


def kind(n):
    """Value kind of a normal form (for signatures and the non-triviality rule)."""
    t = n[0]
    if t == 'num':
        v = n[1]
        if isinstance(v, float) and math.isinf(v):
            return '+inf' if v > 0 else '-inf'
        return 'finite'
    if t == 'seq':
        ks = sorted({kind(v) for v in n[1]})
        return 'seq[' + '+'.join(ks) + ']'
    return t


def flat_kinds(n):
    if n[0] == 'seq':
        out = {'seq'}
        for v in n[1]:
            out |= flat_kinds(v)
        return out
    return {kind(n)}


FIELDS = ['name', 'status', 'sim_name', 'obs_name', 'min_mw', 'observed_statistic', 'quantile']


def fields_of(res):
    return {f: jnorm(getattr(res, f, ('missing',))) for f in FIELDS}


def dist_of(res):
    td = getattr(res, 'test_distribution', None)
    if isinstance(td, str):
        return ('str', td)
    if td is None:
        return ('none',)
    return jnorm(td)


def is_nontrivial(res, fields, dist):
    ks = set()
    for f in ('observed_statistic', 'quantile', 'min_mw'):
        ks |= flat_kinds(fields[f])
    ks |= flat_kinds(dist) - {'seq'}
    if ks & {'nan', '+inf', '-inf', 'none', 'str'}:
        return True
    if isinstance(res.quantile, tuple) or isinstance(res.sim_name, tuple):
        return True
    return type(res).__name__ != 'EvaluationResult'


# --------------------------------------------------------------------------------------------- part 1 judging
class Ctx:
    def __init__(self, case):
        self.failures = []
        self.counters = {}
        self.sets = {}
        self.h = hashlib.sha1()
        self.evals = self.states = self.transitions = self.nontrivial = 0
        self.single = bool(case.get('single'))
        self.sample = None
        self.raise_seen = set()

    def count(self, k, n=1):
        self.counters[k] = self.counters.get(k, 0) + n

    def add(self, k, v):
        self.sets.setdefault(k, [])
        if v not in self.sets[k]:
            self.sets[k].append(v)


def roundtrip(ctx, func, res, replay, label):
    """Judges one produced result twice: written to a fresh path, and written over an existing, LONGER result file at
    the same path (the history 'store a result, store another one under the same name, load it')."""
    _roundtrip(ctx, func, res, replay, label, over_existing=False)
    _roundtrip(ctx, func, res, replay, label, over_existing=True)


def _roundtrip(ctx, func, res, replay, label, over_existing):
    import csep
    cls = type(res).__name__
    fields = fields_of(res)
    dist = dist_of(res)
    ctx.h.update(repr((func, label, cls, sorted(fields.items()), dist)).encode())
    ctx.evals += 1
    if not over_existing:
        ctx.states += 1
        if is_nontrivial(res, fields, dist):
            ctx.nontrivial += 1
    ctx.add('result_classes', cls)
    ctx.add('producers_ok', func)
    for f in ('observed_statistic', 'quantile'):
        for k in flat_kinds(fields[f]):
            ctx.add('value_kinds', f'{f}:{k}')
    for k in flat_kinds(dist):
        ctx.add('value_kinds', f'test_distribution:{k}')
    if ctx.sample is None:
        ctx.sample = dict(func=func, input=label, cls=cls,
                          observed_statistic=fixtures.norm(res.observed_statistic),
                          quantile=fixtures.norm(res.quantile))
    rep = dict(replay, single=True)
    path = os.path.join(fixtures.workdir(), 'c18_result.json')

    def fail(call, cls_, inp, detail):
        if over_existing:
            inp, detail = inp + ',over-existing-file', detail + ' | written over an existing longer result file at the same path'
        ctx.failures.append(Fail(f'{call}|{cls_}|{inp}', f'{detail} | produced by {site(func)} on {label}', rep))
    try:
        if over_existing:
            # the earlier result stored under this name: the same document with a much longer name and distribution
            try:
                csep.write_json(res, path)
                with open(path) as fh:
                    doc = json.load(fh)
                doc['name'] = 'earlier result ' + 'x' * 400
                if isinstance(doc.get('test_distribution'), list):
                    doc['test_distribution'] = doc['test_distribution'] * 3 + [0.5] * 50
                with open(path, 'w') as fh:
                    json.dump(doc, fh)
            except Exception:
                return          # the writer fails on this result: already reported by the fresh-path pass
        ctx.transitions += 1
        try:
            csep.write_json(res, path)
        except Exception as e:
            ctx.h.update(f'WRITE-EXC {type(e).__name__}'.encode())
            fail('csep.write_json', type(e).__name__, cls, f'{type(e).__name__}: {e}')
            return
        ctx.transitions += 1
        try:
            back = csep.load_evaluation_result(path)
        except Exception as e:
            ctx.h.update(f'LOAD-EXC {type(e).__name__}'.encode())
            fail('csep.load_evaluation_result', type(e).__name__, cls,
                 f'{type(e).__name__}: {e} while loading a stored {cls}')
            return
    finally:
        try:
            os.remove(path)
        except OSError:
            pass
    bcls = type(back).__name__
    bfields = fields_of(back)
    bdist = dist_of(back)
    ctx.h.update(repr((bcls, sorted(bfields.items()), bdist)).encode())
    call = 'write_json->load_evaluation_result'
    if type(back) is not type(res):
        fail(call, 'class-differs', cls, f'stored {cls}, loaded {bcls}')

    def differs(f, raw, a, b, braw):
        d = first_diff(raw, a, b)
        if d is None:
            return False
        la, lb, tname = d
        shown = f'{f}: produced {_short(raw)} loaded {_short(braw)}'
        if la[0] in ('num', 'nan') and lb[0] == 'str':
            # the writer could not encode the number and stored its str() instead
            fail(call, 'number-becomes-str', f'{f}:{tname}',
                 f'{shown} (a {tname} came back as the string {lb[1]!r})')
        else:
            fail(call, f'{f}-differs', f'{cls}:{kind(a)}', shown)
        return True
    for f in FIELDS:
        differs(f, getattr(res, f, None), fields[f], bfields[f], getattr(back, f, None))
    # numeric test distribution
    if dist[0] == 'str':
        ctx.count('string_distribution_not_judged')
        return
    raw, braw = res.test_distribution, back.test_distribution
    if dist[0] != 'seq':
        differs('test_distribution', raw, dist, bdist, braw)   # a scalar / None distribution: compare as a value
        return
    if bdist[0] != 'seq' or len(bdist[1]) != len(dist[1]):
        fail(call, 'test_distribution-differs', f'{cls}:{kind(dist)}',
             f'test_distribution: produced {_short(raw)} loaded {_short(braw)}')
        return
    for r, a, b in zip(_children(raw), dist[1], bdist[1]):
        if a[0] == 'str':
            if a != b:
                ctx.count('string_distribution_member_changed')
            continue
        if differs('test_distribution', r, a, b, braw):
            break


def _children(raw):
    return raw.tolist() if isinstance(raw, numpy.ndarray) else list(raw)


def _short(x):
    r = repr(fixtures.norm(x)) if isinstance(x, numpy.ndarray) else repr(x)
    return r if len(r) <= 300 else r[:300] + '...'


def first_diff(raw, a, b):
    """First differing leaf of two normal forms: (produced leaf, loaded leaf, type name of the produced raw leaf)."""
    if a == b:
        return None
    if a[0] == 'seq':
        if b[0] != 'seq' or len(a[1]) != len(b[1]):
            return a, b, type(raw).__name__
        for r, x, y in zip(_children(raw), a[1], b[1]):
            d = first_diff(r, x, y)
            if d is not None:
                return d
        return None
    return a, b, type(raw).__name__


def produce(ctx, func, thunk, replay, label, loop=False):
    """Runs one evaluation; returns the result or None. Producer exceptions are not serialization failures."""
    ctx.transitions += 1
    try:
        with wallguard():
            if loop:
                with horizon():
                    res = thunk()
            else:
                res = thunk()
    except HarnessTimeout:
        raise
    except Horizon:
        ctx.count('outside_precondition_rejection_loop')
        ctx.h.update(f'{func} {label} HORIZON'.encode())
        return None
    except Exception as e:
        exc = type(e).__name__
        ctx.count('producer_raised_on_input')
        ctx.h.update(f'{func} {label} RAISES {exc}'.encode())
        rep = dict(replay, single=True)
        if ctx.single:
            ctx.failures.append(Fail(f'{site(func)}|producer-raises:{exc}|any-input',
                                     f'{exc}: {e} | {site(func)} on {label} (no result to serialise; owned by the '
                                     f'check of the evaluation itself)', rep))
        elif (func, exc) not in ctx.raise_seen:
            ctx.raise_seen.add((func, exc))
            ctx.add('producer_raised', [func, exc, json.dumps(rep, sort_keys=True), f'{exc}: {e}'[:300]])
        return None
    if res is None:
        ctx.count('no_result_returned')
        ctx.h.update(f'{func} {label} NONE'.encode())
        return None
    return res


# ---- builders
def region2(mdt='float64'):
    reg = fixtures.cartesian_region(ORIGINS, DH, magnitudes=MAGS)
    reg.magnitudes = numpy.array(MAGS, dtype=mdt)
    return reg


def event(i, b):
    cell, mb = divmod(b, 2)
    return (f'e{i}', T0 + 1000 * i, ORIGINS[cell][1] + 0.05, ORIGINS[cell][0] + 0.05, 10.0, MAGS[mb] + 0.5)


def obs_catalog(bins, reg, name='obs'):
    return fixtures.catalog([event(100 + k, b) for k, b in enumerate(bins)], region=reg, name=name)


def gridded(rates, reg, name, ddt='float64', mdt='float64'):
    from csep.core.forecasts import GriddedForecast
    data = numpy.array([[rates[0], rates[1]], [rates[2], rates[3]]], dtype=ddt)
    return GriddedForecast(start_time=None, end_time=None, data=data, region=reg,
                           magnitudes=numpy.array(MAGS, dtype=mdt), name=name)


def catalog_forecast(spec, reg, name='cf'):
    from csep.core.forecasts import CatalogForecast
    cats = []
    k = 0
    for cid, bins in enumerate(spec):
        evs = []
        for b in bins:
            k += 1
            evs.append(event(k, b))
        cats.append(fixtures.catalog(evs, region=reg, catalog_id=cid, name=name))
    return CatalogForecast(catalogs=cats, n_cat=len(cats), region=reg, name=name)


def call_gridded(func, fc, obs, sim):
    from csep.core import poisson_evaluations as pe, binomial_evaluations as be, brier_evaluations as br
    mod, name = func.split('.')
    f = getattr({'poisson': pe, 'binomial': be, 'brier': br}[mod], name)
    if func == 'binomial.negative_binomial_number_test':
        return f(fc, obs, NBD_VARIANCE)
    if sim is None:
        return f(fc, obs)
    return f(fc, obs, seed=sim[0], num_simulations=sim[1])


def call_paired(func, fc, bm, obs):
    from csep.core import poisson_evaluations as pe, binomial_evaluations as be
    mod, name = func.split('.')
    return getattr({'poisson': pe, 'binomial': be}[mod], name)(fc, bm, obs)


def call_catalog(func, fc, obs):
    from csep.core import catalog_evaluations as ce
    name = func.split('.')[1]
    f = getattr(ce, name)
    if name in ('resampled_magnitude_test', 'MLL_magnitude_test'):
        return f(fc, obs, seed=1)
    return f(fc, obs, verbose=False)


DEFAULT_DT = ['float64', 'float64']


def dt_label(ddt, mdt):
    if (ddt or 'float64') == 'float64' and mdt == 'float64':
        return ''
    return (f' rate_dtype={ddt}' if ddt else '') + f' magnitude_bin_dtype={mdt}'


LOOPED = {'binomial.binary_spatial_test', 'binomial.binary_conditional_likelihood_test', 'brier.brier_score_test'}


def run_gridded(ctx, case):
    func = case['func']
    for ddt, mdt in case.get('dtypes', [DEFAULT_DT]):
        reg = region2(mdt)
        for r in case['rates']:
            for o in case['obs']:
                for sim in case['sims']:
                    sim = None if sim is None else tuple(sim)
                    label = (f'rates={r} observed_bins={o}' + dt_label(ddt, mdt) +
                             ('' if sim is None else f' seed={sim[0]} num_simulations={sim[1]}'))
                    replay = dict(kind='gridded', func=func, rates=[r], obs=[o], dtypes=[[ddt, mdt]],
                                  sims=[None if sim is None else list(sim)])
                    res = produce(ctx, func,
                                  lambda: call_gridded(func, gridded(r, reg, 'fc', ddt, mdt), obs_catalog(o, reg), sim),
                                  replay, label, loop=func in LOOPED)
                    if res is not None:
                        roundtrip(ctx, func, res, replay, label)


def run_paired(ctx, case):
    func = case['func']
    all81 = [list(b) for b in space.assignments(NBINS, RATES_Q)]
    for ddt, mdt in case.get('dtypes', [DEFAULT_DT]):
        reg = region2(mdt)
        for r in case['rates']:
            if case['bench'] == 'all':
                bench = all81
            elif case['bench'] == 'basic':
                bench = benchmarks_basic(r)
            else:
                bench = case['bench']
            for b in bench:
                for o in case['obs']:
                    label = f'rates={r} benchmark={b} observed_bins={o}' + dt_label(ddt, mdt)
                    replay = dict(kind='paired', func=func, rates=[r], bench=[b], obs=[o], dtypes=[[ddt, mdt]])
                    res = produce(ctx, func,
                                  lambda: call_paired(func, gridded(r, reg, 'fc', ddt, mdt),
                                                      gridded(b, reg, 'bm', ddt, mdt), obs_catalog(o, reg)),
                                  replay, label)
                    if res is not None:
                        roundtrip(ctx, func, res, replay, label)


def run_catalog(ctx, case):
    func = case['func']
    for ddt, mdt in case.get('dtypes', [DEFAULT_DT]):
        reg = region2(mdt)
        for spec in case['forecasts']:
            for o in case['obs']:
                label = f'forecast_catalogs={spec} observed_bins={o}' + dt_label(None, mdt)
                replay = dict(kind='catalog', func=func, forecasts=[spec], obs=[o], dtypes=[[ddt, mdt]])
                res = produce(ctx, func, lambda: call_catalog(func, catalog_forecast(spec, reg), obs_catalog(o, reg)),
                              replay, label)
                if res is not None:
                    roundtrip(ctx, func, res, replay, label)


def run_calibration(ctx, case):
    from csep.core import catalog_evaluations as ce
    func = 'catalog.calibration_test'
    reg = region2()
    sizes = sorted({len(o) for o in case['obs']})
    # observation groups: all observations of one size, and all observations up to each size (so that the groups of a
    # smaller bound are groups of every larger bound: thorough is a superset of quick)
    groups = [[o for o in case['obs'] if len(o) == n] for n in sizes]
    groups += [[o for o in case['obs'] if len(o) <= n] for n in sizes[1:]]
    groups = case.get('groups', groups)
    for spec in case['forecasts']:
        for src in case.get('sources', CALIB_SOURCES):
            for grp in groups:
                inputs = []
                for o in grp:
                    ctx.transitions += 1
                    try:
                        with wallguard():
                            r = call_catalog(src, catalog_forecast(spec, reg), obs_catalog(o, reg))
                    except HarnessTimeout:
                        raise
                    except Exception:
                        ctx.count('calibration_input_unavailable')
                        continue
                    if r is not None:
                        inputs.append(r)
                if not inputs:
                    ctx.count('calibration_no_inputs')
                    continue
                for d1 in case.get('delta_1', [False, True]):
                    label = f'source={src} forecast_catalogs={spec} observations={grp} delta_1={d1}'
                    replay = dict(kind='calibration', forecasts=[spec], obs=grp, groups=[grp], sources=[src],
                                  delta_1=[d1])
                    res = produce(ctx, func, lambda: ce.calibration_test(inputs, delta_1=d1), replay, label)
                    if res is not None:
                        roundtrip(ctx, func, res, replay, label)


def run_names(ctx, case):
    from csep.core import poisson_evaluations as pe, catalog_evaluations as ce
    names = case.get('names', NAMES)
    for fn in names:
        for on in names:
            reg = region2()
            for func, thunk in (
                    ('poisson.number_test', lambda: pe.number_test(gridded([0.5, 2.0, 0.5, 2.0], reg, fn),
                                                                   obs_catalog([0, 3], reg, name=on))),
                    ('poisson.paired_t_test', lambda: pe.paired_t_test(gridded([0.5, 2.0, 0.5, 2.0], reg, fn),
                                                                       gridded([2.0, 0.5, 0.5, 0.5], reg, on),
                                                                       obs_catalog([0, 3], reg, name=on))),
                    ('catalog.number_test', lambda: ce.number_test(catalog_forecast([[0], [1, 3]], reg, name=fn),
                                                                   obs_catalog([0, 3], reg, name=on),
                                                                   verbose=False))):
                label = f'names forecast={fn!r} observed/benchmark={on!r}'
                replay = dict(kind='names', names=sorted({fn, on}, key=repr))
                res = produce(ctx, func, thunk, replay, label)
                if res is not None:
                    roundtrip(ctx, func, res, replay, label)


# --------------------------------------------------------------------------------------------- part 2
def lattice_origins(dh, anchor, cells):
    return [(floats.decimal_grid(anchor[0], dh, i), floats.decimal_grid(anchor[1], dh, j)) for i, j in cells]


def probes(dh, anchor, cells, mode):
    """2-D probe points (lons, lats) for the bounding box of the lattice."""
    imin, imax = min(c[0] for c in cells), max(c[0] for c in cells)
    jmin, jmax = min(c[1] for c in cells), max(c[1] for c in cells)
    bx = [floats.decimal_grid(anchor[0], dh, i) for i in range(imin, imax + 2)]
    by = [floats.decimal_grid(anchor[1], dh, j) for j in range(jmin, jmax + 2)]
    pts = []
    for x in bx:
        wx = [float(v) for v in floats.window(x, 2)]
        for y in by:
            wy = [float(v) for v in floats.window(y, 2)]
            if mode == 'block':
                pts += [(a, b) for a in wx for b in wy]
            else:
                pts += [(a, y) for a in wx]
                pts += [(x, b) for b in wy if b != y]
                for k in (0, 1, 3, 4):
                    pts.append((wx[k], wy[k]))
                    pts.append((wx[k], wy[4 - k]))
    # centres of every bounding-box cell and of the ring one cell outside on each side
    cx = [floats.decimal_grid(anchor[0], dh, i) + dh / 2 for i in range(imin - 1, imax + 2)]
    cy = [floats.decimal_grid(anchor[1], dh, j) + dh / 2 for j in range(jmin - 1, jmax + 2)]
    pts += [(a, b) for a in cx for b in cy]
    lons = numpy.array([p[0] for p in pts], dtype=float)
    lats = numpy.array([p[1] for p in pts], dtype=float)
    return lons, lats


REJ = -1          # get_index_of raised ValueError
OTHER_EXC = -2    # get_index_of raised something else (recorded with the type)


def observe(reg, lons, lats, stats):
    """Cell index per probe from get_index_of; REJ where it raises ValueError."""
    n = len(lons)
    out = numpy.full(n, REJ, dtype=numpy.int64)
    exc_types = {}

    def scalar(k):
        stats['calls'] += 1
        try:
            out[k] = int(reg.get_index_of(float(lons[k]), float(lats[k])))
        except HarnessTimeout:
            raise
        except ValueError:
            out[k] = REJ
        except Exception as e:
            out[k] = OTHER_EXC
            exc_types[k] = type(e).__name__
    try:
        stats['calls'] += 1
        masked = numpy.asarray(reg.get_masked(lons, lats), dtype=bool)
        good = numpy.nonzero(~masked)[0]
        if len(good):
            stats['calls'] += 1
            idx = numpy.asarray(reg.get_index_of(lons[good], lats[good]))
            if idx.shape != good.shape:
                raise ValueError('shape')
            out[good] = idx.astype(numpy.int64)
        todo = numpy.nonzero(masked)[0]
    except HarnessTimeout:
        raise
    except Exception:
        todo = range(n)   # the batching shortcut is not available: observe every probe on its own
    for k in todo:
        scalar(int(k))
    return out, exc_types


def rebuilds(reg, first_origin, dh):
    """(path label, thunk) pairs, each returning a rebuilt region."""
    from csep.core.regions import CartesianGrid2D
    from csep.core.catalogs import CSEPCatalog

    def cat():
        lon, lat = first_origin[0] + dh / 2, first_origin[1] + dh / 2
        return fixtures.catalog([('e1', T0 + 1000, lat, lon, 10.0, 5.5)], region=reg, name='obs')

    def need_region(c):
        if getattr(c, 'region', None) is None:
            raise LookupError('catalog rebuilt from its dictionary carries no region')
        return c.region
    return [
        ('dict', lambda: CartesianGrid2D.from_dict(reg.to_dict())),
        ('json', lambda: CartesianGrid2D.from_dict(json.loads(json.dumps(reg.to_dict())))),
        ('catalog-dict', lambda: need_region(CSEPCatalog.from_dict(cat().to_dict()))),
        ('catalog-json', lambda: need_region(CSEPCatalog.from_dict(json.loads(json.dumps(cat().to_dict(),
                                                                                         default=str))))),
    ]


def run_region(ctx, case):
    dh, anchor, mode = case['dh'], tuple(case['anchor']), case['mode']
    stats = dict(calls=0)
    for cells in case['lattices']:
        cells = [tuple(c) for c in cells]
        origins = lattice_origins(dh, anchor, cells)
        reg = fixtures.cartesian_region(origins, dh, name=case.get('name', 'verif'))
        lons, lats = probes(dh, anchor, cells, mode)
        ref, ref_exc = observe(reg, lons, lats, stats)
        # history before the region is serialised: the caller converted the arrays it was handed by origins()/midpoints() to the
        # 0..360 convention in place, and emptied a dictionary it had taken earlier
        for getter in ('origins', 'midpoints'):
            try:
                arr = getattr(reg, getter)()
                if isinstance(arr, numpy.ndarray) and arr.size:
                    arr += 360.0
            except Exception:
                pass
        try:
            d0 = reg.to_dict()
            for v in list(d0.values()):
                if isinstance(v, list):
                    del v[:]
            d0.clear()
        except Exception:
            pass
        ctx.states += 1
        if len(cells) >= 2:
            ctx.nontrivial += 1
        ctx.count('lattices')
        ncell_box = ((max(c[0] for c in cells) - min(c[0] for c in cells) + 1) *
                     (max(c[1] for c in cells) - min(c[1] for c in cells) + 1))
        if ncell_box != len(cells):
            ctx.count('lattices_with_holes')
        ctx.count('probes_rejected_by_original', int((ref == REJ).sum()))
        ctx.count('probes_accepted_by_original', int((ref >= 0).sum()))
        ctx.h.update(repr((dh, anchor, cells)).encode())
        ctx.h.update(ref.tobytes())
        rep = dict(kind='region', dh=dh, anchor=list(anchor), lattices=[[list(c) for c in cells]], mode=mode,
                   single=True, name=case.get('name', 'verif'))
        lat_desc = f'dh={dh} anchor={anchor} cells(col,row)={cells} origins={origins}'
        if ctx.sample is None:
            ctx.sample = dict(dh=dh, anchor=list(anchor), cells=[list(c) for c in cells], probes=len(lons),
                              rejected_by_original=int((ref == REJ).sum()))
        # the four paths nest (json and catalog-dict contain the dict path, catalog-json contains catalog-dict):
        # every path is executed and judged, but a lattice reports only the first (innermost) path that fails,
        # so that one defect in from_dict gives one signature and a defect of an outer layer keeps its own.
        reported = False
        for label, thunk in rebuilds(reg, origins[0], dh):
            call = f'CartesianGrid2D.to_dict->from_dict[{label}]'
            ctx.transitions += 2

            def fail(cls_, inp, detail):
                ctx.count('region_rebuilds_failing')
                if not reported:
                    ctx.failures.append(Fail(f'{call}|{cls_}|{inp}', f'{detail} | {lat_desc}', rep))
            try:
                with wallguard():
                    back = thunk()
            except HarnessTimeout:
                raise
            except Exception as e:
                ctx.h.update(f'{label} EXC {type(e).__name__}'.encode())
                ctx.evals += 1
                fail(type(e).__name__, _lattice_class(cells), f'{type(e).__name__}: {e}')
                reported = True
                continue
            got, got_exc = observe(back, lons, lats, stats)
            ctx.h.update(got.tobytes())
            ctx.evals += len(lons)
            bad = numpy.nonzero(got != ref)[0]
            if len(bad) == 0 and got_exc == ref_exc:
                continue
            if len(bad) == 0:
                k = sorted(set(got_exc) ^ set(ref_exc) or set(got_exc))[0]
                fail('exception-type-differs', 'any-lattice',
                     f'probe ({float(lons[k])!r},{float(lats[k])!r}): original {ref_exc.get(k)} rebuilt {got_exc.get(k)}')
                reported = True
                continue
            k = int(bad[0])

            def show(v, ex):
                return ('rejects (ValueError)' if v == REJ else f'raises {ex or "an exception"}' if v == OTHER_EXC
                        else f'cell {int(v)}')
            n_idx = int(((ref >= 0) & (got >= 0) & (got != ref)).sum())
            n_rej = int(((ref >= 0) & (got < 0)).sum())
            n_acc = int(((ref < 0) & (got >= 0)).sum())
            fail('cell-assignment-differs', 'any-lattice',
                 f'{len(bad)} of {len(lons)} probes differ ({n_idx} other index, {n_rej} rejected where the original '
                 f'accepts, {n_acc} accepted where the original rejects); first: (lon,lat)=({float(lons[k])!r},{float(lats[k])!r}) '
                 f'original -> {show(ref[k], ref_exc.get(k))}, rebuilt -> {show(got[k], got_exc.get(k))}')
            reported = True
    ctx.transitions += stats['calls']


def _lattice_class(cells):
    if len(cells) == 1:
        return 'single-cell'
    return 'multi-cell'


# --------------------------------------------------------------------------------------------- entry points
RUNNERS = dict(gridded=run_gridded, paired=run_paired, catalog=run_catalog, calibration=run_calibration,
               names=run_names, region=run_region)


def run_case(case):
    numpy.random.seed(424242)
    ctx = Ctx(case)
    RUNNERS[case['kind']](ctx, case)
    return result(evals=ctx.evals, states=ctx.states, transitions=ctx.transitions, nontrivial=ctx.nontrivial,
                  failures=ctx.failures, digest=ctx.h.hexdigest(), counters=ctx.counters, sets=ctx.sets,
                  sample=ctx.sample)


def finish(agg, tier):
    """A function that raised on every input of the run cannot produce a result at all: tracked separately."""
    ok = set(agg['sets'].get('producers_ok', ()))
    raised = {}
    for func, exc, rep, msg in agg['sets'].get('producer_raised', ()):
        if func in ok:
            continue
        key = (func, exc)
        cand = (len(rep), rep, msg)
        if key not in raised or cand < raised[key]:
            raised[key] = cand
    failures = []
    agg['counters']['producer_unavailable'] = len({f for f, _ in raised})
    for (func, exc), (_, rep, msg) in sorted(raised.items()):
        failures.append(Fail(f'{site(func)}|producer-raises:{exc}|any-input',
                             f'{msg} | {site(func)} raised on every input of this run: no result exists to serialise '
                             f'(owned by the check of the evaluation itself, tracked here separately from '
                             f'serialization failures)', json.loads(rep)))
    ev = dict(bounds=dict(tier=tier,
                          evaluation_functions=len(GRIDDED) + len(PAIRED) + len(CATALOG) + 1,
                          functions_that_produced_a_result=sorted(ok),
                          functions_never_producing=sorted({f for f, _ in raised}),
                          result_classes_seen=sorted(agg['sets'].get('result_classes', ())),
                          value_kinds_seen=sorted(agg['sets'].get('value_kinds', ()))),
              ambiguous_skipped=agg['counters'].get('string_distribution_not_judged', 0))
    return dict(evidence=ev, failures=failures)
