"""C08 Paired T- and W-tests follow Rhoades et al. (2011) and are antisymmetric."""
import datetime
import hashlib
import itertools
import math

import numpy

from mc import fixtures, space
from mc.engine import Fail, result

ID = 'C08'
RULE = ('region 2 cells x 2 magnitude bins; forecasts = all 81 rate arrays over {0.25,1,4}; ALL 6561 ordered pairs '
        '(each unordered pair is run in both orders; every self-pair present); catalogs = all multisets of 2..3 (thorough 2..5) events over the four bins; '
        'paired_t_test, w_test and binary_paired_t_test through real GriddedForecast/CSEPCatalog objects at alpha=0.05; '
        'alpha in {0.01,0.5} and scale=True (10-day window) on the complete 9x9 sub-block; thorough adds rates '
        'nearly equal forecast pairs (relative differences 1e-9, 1e-7, 1e-5 in every bin / in one bin / at rates x1000); {1e-3, 10} on a 2x1 region (all pairs) and catalogs of 5 events. A case is non-trivial iff the catalog has a '
        'repeated bin or tied |differences| or the two forecasts have different totals; distinct by construction.')
ASSUMPTIONS = ['scipy.stats.t.ppf and scipy.stats.norm.sf are trusted (the property is defined through those laws)',
               't statistic / interval are compared only where the reference variance is clear of zero (relative 1e-9); '
               'degenerate cases must still return a result (NaN/inf allowed)',
               'W-test cases where every difference equals the null median are outside the property']

ALPHA3 = [0.25, 1.0, 4.0]
T0 = datetime.datetime(2010, 1, 1)
T1 = datetime.datetime(2010, 1, 11)


def all_rates(alpha, n):
    return [list(r) for r in itertools.product(alpha, repeat=n)]


def cases(tier, seed):
    rates = all_rates(ALPHA3, 4)
    sub = [i for i, r in enumerate(rates) if r[2:] == [1.0, 1.0]]
    for i in sub:       # the heavier sub-block first, one forecast A per case (load balance)
        yield dict(kind='block', shape=[2, 2], alpha=ALPHA3, a_idx=[i], b_idx=sub, max_events=(3 if tier == 'quick' else 4), variants='alpha-scale')
    for chunk in space.chunks(list(range(len(rates))), 1):
        yield dict(kind='block', shape=[2, 2], alpha=ALPHA3, a_idx=chunk, max_events=(3 if tier == 'quick' else 4), variants='main')
    # nearly equal forecasts: log-rate differences and null median of order 1e-9 .. 1e-5 (relative to rates of order 1)
    base = [0.25, 1.0, 4.0, 2.0]
    near = []
    for eps in (1e-9, 1e-7, 1e-5):
        near.append((base, [x * (1 + k * eps) for x, k in zip(base, (1, -2, 3, 5))]))          # every bin differs
        near.append((base, [base[0] * (1 + eps)] + base[1:]))                                   # one bin differs: most differences are exactly 0
        near.append(([x * 1000 for x in base], [x * 1000 * (1 + k * eps) for x, k in zip(base, (2, 1, -1, 4))]))
    yield dict(kind='pairs', shape=[2, 2], alpha=[], pairs=near, max_events=(3 if tier == 'quick' else 4))
    if tier == 'thorough':
        r2 = all_rates([1e-3, 0.25, 1.0, 4.0, 10.0], 2)
        for chunk in space.chunks(list(range(len(r2))), 5):
            yield dict(kind='block', shape=[2, 1], alpha=[1e-3, 0.25, 1.0, 4.0, 10.0], a_idx=chunk, max_events=5, variants='main')
        for chunk in space.chunks(list(range(0, len(rates), 3)), 3):
            yield dict(kind='block', shape=[2, 2], alpha=ALPHA3, a_idx=chunk, max_events=5, min_events=5, variants='main')
    else:
        extra = [1e-3, 0.1, 10.0, 100.0][seed % 4]   # seed-selected complete block on a 2x1 region
        r2 = all_rates([extra, 1.0, 4.0], 2)
        yield dict(kind='block', shape=[2, 1], alpha=[extra, 1.0, 4.0], a_idx=list(range(len(r2))), max_events=4, variants='main')


# ----------------------------------------------------------------------------- reference (Rhoades et al. 2011)
def ref_ttest(xa, xb, na, nb, alpha):
    """xa/xb: rates of forecast A/B at each of the N items; na/nb: forecast totals."""
    from scipy.stats import t as student
    n = len(xa)
    X = [math.log(a) - math.log(b) for a, b in zip(xa, xb)]
    sx = math.fsum(X)
    gain = (sx - (na - nb)) / n
    out = dict(gain=gain, n=n)
    if n < 2:
        out.update(var=float('nan'), t=None, tcrit=None, lo=None, hi=None)
        return out
    s2 = math.fsum(x * x for x in X)
    var = s2 / (n - 1) - sx * sx / (n * n - n)
    out['var'] = var
    scale = s2 / (n - 1)
    if var <= 1e-9 * max(scale, 1e-300):
        out.update(t=None, tcrit=None, lo=None, hi=None)      # degenerate: not judged numerically
        return out
    sd = math.sqrt(var)
    t = gain / (sd / math.sqrt(n))
    tc = float(student.ppf(1 - alpha / 2, n - 1))
    out.update(t=t, tcrit=tc, lo=gain - tc * sd / math.sqrt(n), hi=gain + tc * sd / math.sqrt(n))
    return out


def ref_wilcoxon(X, m, tie_tol=1e-12):
    """z and two-sided p of the signed-rank test of differences X about m (zero-removal, average ranks, tie correction)."""
    from scipy.stats import norm
    d = [x - m for x in X]
    scale = max([abs(x) for x in X] + [abs(m), 1e-300])
    nz = [v for v in d if abs(v) > tie_tol * scale]
    amb = False
    n = len(nz)
    if n == 0:
        return None
    a = sorted(abs(v) for v in nz)
    # tie groups with tolerance
    groups = []
    for v in a:
        if groups and abs(v - groups[-1][0]) <= tie_tol * scale:
            groups[-1].append(v)
        else:
            groups.append([v])
    rank_of = {}
    pos = 0
    for g in groups:
        r = (pos + 1 + pos + len(g)) / 2.0
        for v in g:
            rank_of[v] = r
        pos += len(g)

    def rank(v):
        for g in groups:
            if abs(abs(v) - g[0]) <= tie_tol * scale:
                return rank_of[g[0]]
        raise AssertionError
    rp = sum(rank(v) for v in nz if v > 0)
    rm = sum(rank(v) for v in nz if v < 0)
    T = min(rp, rm)
    mn = n * (n + 1) * 0.25
    se = n * (n + 1) * (2 * n + 1)
    se -= 0.5 * sum(len(g) * (len(g) ** 2 - 1) for g in groups if len(g) > 1)
    if se <= 0:
        return dict(z=None, p=None, ambiguous=True)
    se = math.sqrt(se / 24)
    z = (T - mn) / se
    p = 2.0 * float(norm.sf(abs(z)))
    return dict(z=z, p=p, ambiguous=amb)


def close(a, b, rtol=1e-9, atol=1e-12):
    a, b = float(a), float(b)
    if math.isnan(a) or math.isnan(b) or math.isinf(a) or math.isinf(b):
        return (math.isnan(a) and math.isnan(b)) or a == b
    return abs(a - b) <= atol + rtol * max(abs(a), abs(b))


def run_case(case):
    from csep.core import poisson_evaluations as pe, binomial_evaluations as be
    failures = []
    hsh = hashlib.sha1()
    evals = states = nontriv = 0
    counters = dict(degenerate_variance_not_judged=0, w_all_zero_excluded=0, w_ambiguous_ties_not_judged=0)
    nc, nm = case['shape']
    n = nc * nm
    reg, origins, mags = fixtures.grid_setup(nc, nm)
    rates = all_rates(case['alpha'], n)
    if case['kind'] == 'single':
        pairs = [(case['a'], case['b'])]
        catalogs = [case['catalog']]
        variants = [(case['alpha_level'], case['scale'])]
    elif case['kind'] == 'pairs':
        pairs = [(list(a), list(b)) for a, b in case['pairs']]
        catalogs = [list(c) for c in space.multisets(list(range(n)), 2, case['max_events'])]
        variants = [(0.05, False)]
    else:
        a_idx = case['a_idx']
        b_idx = case.get('b_idx') or list(range(len(rates)))
        pairs = [(rates[i], rates[j]) for i in a_idx for j in b_idx if i <= j]
        catalogs = [list(c) for c in space.multisets(list(range(n)), case.get('min_events', 2), case['max_events'])]
        variants = [(0.05, False)] if case['variants'] == 'main' else [(0.01, False), (0.5, False), (0.05, True), (0.01, True), (0.05, 'rescaled'), (0.05, 'rescaled-scaled'), (0.05, 'catalog-changed'), (0.05, 'array-scaled'), (0.05, 'int-rates'), (0.05, 'aware-horizon')]
    def fc_of(r, name):
        # a FRESH forecast object per state: the calls of one state (T(A,B), T(B,A), binary T both orders, W both orders)
        # form an explicit history on the same two objects, so a call that corrupts a forecast is seen by the next one,
        # and the replay of a single state reproduces it
        return fixtures.gridded_forecast(numpy.array(r, dtype=float).reshape(nc, nm), reg, mags, name=name, start=T0, end=T1)
    cats = {}
    for ra, rb in pairs:
        for cat_bins in catalogs:
            key = tuple(cat_bins)
            if key not in cats:
                counts = [cat_bins.count(k) for k in range(n)]
                cats[key] = fixtures.catalog(fixtures.events_from_counts(numpy.array(counts).reshape(nc, nm), origins, mags), region=reg)
                # events of the last (open-ended) magnitude bin lie several bin widths above its lower edge
                top_ = cats[key].catalog['magnitude'] >= mags[-1]
                cats[key].catalog['magnitude'][top_] += 2.5
            for alpha, scale in variants:
                ra0, rb0 = ra, rb
                try:
                    fa, fb = fc_of(ra, 'A'), fc_of(rb, 'B')
                    states += 1
                    the_cat = cats[key]
                    cat_bins0 = cat_bins
                    if scale == 'catalog-changed':
                        # history: the two forecasts are compared on a catalog; the SAME catalog object then loses its last event
                        # (its event array is replaced); the same forecast objects are compared on it again
                        scale = False
                        if len(cat_bins) < 3:
                            continue
                        mk = lambda bins_: fixtures.catalog(fixtures.events_from_counts(numpy.array([bins_.count(k) for k in range(n)]).reshape(nc, nm), origins, mags), region=reg)
                        the_cat = mk(cat_bins)
                        for f_ in (pe.paired_t_test, pe.w_test, be.binary_paired_t_test):
                            try:
                                f_(fa, fb, the_cat)
                            except Exception:
                                pass
                        cat_bins = sorted(cat_bins)[:-1]
                        the_cat.catalog = mk(cat_bins).catalog
                    if scale == 'array-scaled':
                        # the forecasts reach their rates through scale(<ndarray>): one factor per magnitude bin (A), per cell (B)
                        scale = False
                        am = numpy.array([[2.0, 0.5][m % 2] for m in range(nm)]).reshape(1, nm)
                        ac = numpy.array([[4.0, 0.25, 1.0, 2.0][c % 4] for c in range(nc)]).reshape(nc, 1)
                        fa = fc_of((numpy.array(ra).reshape(nc, nm) / am).ravel().tolist(), 'A')
                        fa.scale(am)
                        fb = fc_of((numpy.array(rb).reshape(nc, nm) / ac).ravel().tolist(), 'B')
                        fb.scale(ac)
                    if scale == 'aware-horizon':
                        # the forecast horizon is given with UTC-aware datetimes whose zone is not the stdlib singleton named 'UTC'
                        scale = True
                        gmt = datetime.timezone(datetime.timedelta(0), 'GMT')
                        mk_a = lambda r_, nme: fixtures.gridded_forecast(numpy.array(r_, dtype=float).reshape(nc, nm), reg, mags, name=nme, start=T0.replace(tzinfo=gmt), end=T1.replace(tzinfo=gmt))
                        fa, fb = mk_a(ra, 'A'), mk_a(rb, 'B')
                    if scale == 'int-rates':
                        # rates stored as INTEGER arrays (four times the alphabet: 1, 4, 16), daily rates requested
                        from csep.core.forecasts import GriddedForecast
                        scale = True
                        ra, rb = [x * 4 for x in ra], [x * 4 for x in rb]
                        mk_i = lambda r_, nme: GriddedForecast(start_time=T0, end_time=T1, data=numpy.array(r_, dtype=numpy.int64).reshape(nc, nm), region=reg, magnitudes=numpy.array(mags), name=nme)
                        fa, fb = mk_i(ra, 'A'), mk_i(rb, 'B')
                    rescaled = scale in ('rescaled', 'rescaled-scaled')
                    if rescaled:
                        # history: both forecasts are used once (their totals are read), then rescaled by 1/2, then used again
                        # (with scale=False, or with scale=True: the daily rates of the RESCALED forecast)
                        scale = (scale == 'rescaled-scaled')
                        try:
                            pe.w_test(fa, fb, cats[key] if key in cats else fixtures.catalog(fixtures.events_from_counts(numpy.array([cat_bins.count(k) for k in range(n)]).reshape(nc, nm), origins, mags), region=reg))
                            _ = fa.event_count, fb.event_count, fa.sum(), fb.sum()
                        except Exception:
                            pass
                        fa.scale(0.5)
                        fb.scale(0.5)
                        ra, rb = [x * 0.5 for x in ra], [x * 0.5 for x in rb]
                    div = 10.0 if scale else 1.0
                    na, nb = math.fsum(ra) / div, math.fsum(rb) / div
                    xa = [ra[k] / div for k in cat_bins]
                    xb = [rb[k] / div for k in cat_bins]
                    rep = dict(kind='single', shape=case['shape'], alpha=case['alpha'], a=ra, b=rb, catalog=list(cat_bins),
                               alpha_level=alpha, scale=scale)
                    if len(set(cat_bins)) < len(cat_bins) or na != nb:
                        nontriv += 1
                    # ---- paired T and binary T, both orders
                    active = sorted(set(cat_bins))
                    for site, fn, A, B in (('poisson_evaluations.paired_t_test', pe.paired_t_test, (xa, xb), None),
                                           ('binomial_evaluations.binary_paired_t_test', be.binary_paired_t_test,
                                            ([ra[k] for k in active], [rb[k] for k in active]), None)):
                        cat = the_cat
                        try:
                            r1 = fn(fa, fb, cat, alpha=alpha, scale=scale)
                            r2 = fn(fb, fa, cat, alpha=alpha, scale=scale)
                        except Exception as e:
                            failures.append(Fail(f'{site}|{type(e).__name__}|any', f'{type(e).__name__}: {e} A={ra} B={rb} catalog bins={cat_bins}', rep))
                            continue
                        evals += 2
                        ref = ref_ttest(A[0], A[1], na, nb, alpha)
                        g1, g2 = float(r1.observed_statistic), float(r2.observed_statistic)
                        hsh.update(repr((site, g1, fixtures.norm(r1.quantile), fixtures.norm(r1.test_distribution))).encode())
                        if not close(g1, ref['gain']):
                            failures.append(Fail(f'{site}|information-gain-differs-from-eq17|any',
                                                 f'gain {g1!r}, reference {ref["gain"]!r} (A={ra} B={rb} bins={cat_bins} scale={scale})', rep))
                            continue
                        if not close(g2, -g1, atol=1e-12):
                            failures.append(Fail(f'{site}|swap-does-not-negate-gain|any', f'{g1!r} vs swapped {g2!r} (A={ra} B={rb} bins={cat_bins})', rep))
                        if ra == rb and g1 != 0.0:
                            failures.append(Fail(f'{site}|self-comparison-gain-not-zero|any', f'gain {g1!r} for A=B={ra}', rep))
                        if ref['t'] is None:
                            counters['degenerate_variance_not_judged'] += 1
                            continue
                        t1, tc1 = (float(x) for x in r1.quantile)
                        lo1, hi1 = (float(x) for x in r1.test_distribution)
                        t2, tc2 = (float(x) for x in r2.quantile)
                        lo2, hi2 = (float(x) for x in r2.test_distribution)
                        if not (close(t1, ref['t'], rtol=1e-7) and close(tc1, ref['tcrit']) and close(lo1, ref['lo'], rtol=1e-7, atol=1e-10)
                                and close(hi1, ref['hi'], rtol=1e-7, atol=1e-10)):
                            failures.append(Fail(f'{site}|t-statistic-or-interval-differs-from-eq18|any',
                                                 f'(t, tcrit, lo, hi) = {(t1, tc1, lo1, hi1)}, reference {(ref["t"], ref["tcrit"], ref["lo"], ref["hi"])} '
                                                 f'(A={ra} B={rb} bins={cat_bins} alpha={alpha} scale={scale})', rep))
                            continue
                        if not (close(t2, -t1, rtol=1e-9) and close(lo2, -hi1, atol=1e-10) and close(hi2, -lo1, atol=1e-10) and close(tc1, tc2)):
                            failures.append(Fail(f'{site}|swap-does-not-mirror-statistic-and-interval|any',
                                                 f'{(t1, lo1, hi1)} vs swapped {(t2, lo2, hi2)} (A={ra} B={rb} bins={cat_bins})', rep))
                    # ---- W test
                    if alpha == 0.05:
                        site = 'poisson_evaluations.w_test'
                        X = [math.log(a) - math.log(b) for a, b in zip(xa, xb)]
                        m = (math.fsum(ra) - math.fsum(rb)) / len(cat_bins)       # w_test uses the unscaled totals
                        ref = ref_wilcoxon(X, m)
                        # the same differences as the library forms them (vector log): ties by exact float equality
                        Xnp = (numpy.log(numpy.array(xa)) - numpy.log(numpy.array(xb))).tolist()
                        ref_exact = ref_wilcoxon(Xnp, (float(numpy.sum(numpy.array(ra).reshape(nc, nm))) - float(numpy.sum(numpy.array(rb).reshape(nc, nm)))) / len(cat_bins), tie_tol=0.0)
                        if ref is None:
                            counters['w_all_zero_excluded'] += 1
                            continue
                        try:
                            w1 = pe.w_test(fa, fb, the_cat, scale=scale)
                            w2 = pe.w_test(fb, fa, the_cat, scale=scale)
                        except Exception as e:
                            failures.append(Fail(f'{site}|{type(e).__name__}|any', f'{type(e).__name__}: {e} A={ra} B={rb} bins={cat_bins}', rep))
                            continue
                        evals += 2
                        z1, p1 = float(w1.observed_statistic), float(w1.quantile)
                        z2, p2 = float(w2.observed_statistic), float(w2.quantile)
                        hsh.update(repr((z1, p1)).encode())
                        ok_tol = close(z1, ref['z'], rtol=1e-9) and close(p1, ref['p'], rtol=1e-9)
                        ok_exact = ref_exact is not None and ref_exact['z'] is not None and close(z1, ref_exact['z'], rtol=1e-9) and close(p1, ref_exact['p'], rtol=1e-9)
                        if ok_exact and not ok_tol:
                            counters['w_ambiguous_ties_not_judged'] += 1     # ties decided by 1-ulp noise of log(): either reading accepted
                        if not (ok_tol or ok_exact):
                            failures.append(Fail(f'{site}|z-or-p-differs-from-signed-rank-definition|any',
                                                 f'(z,p)={(z1, p1)} reference {(ref["z"], ref["p"])} (A={ra} B={rb} bins={cat_bins})', rep))
                            continue
                        if not (0.0 <= p1 <= 1.0):
                            failures.append(Fail(f'{site}|p-outside-unit-interval|any', f'p={p1}', rep))
                        if not (close(z1, z2) and close(p1, p2)):
                            failures.append(Fail(f'{site}|not-invariant-under-swap|any', f'{(z1, p1)} vs swapped {(z2, p2)} (A={ra} B={rb} bins={cat_bins})', rep))
                finally:
                    ra, rb = ra0, rb0
                    cat_bins = cat_bins0
        if len(failures) > 60:
            break
    seen, uniq = set(), []
    for f in failures:
        if f['signature'] not in seen:
            seen.add(f['signature'])
            uniq.append(f)
    sample = dict(A=pairs[0][0], B=pairs[0][1], catalog_bins=catalogs[min(3, len(catalogs) - 1)], variants=variants)
    return result(evals=evals, states=states, transitions=evals, nontrivial=nontriv, failures=uniq, digest=hsh.hexdigest(),
                  counters=counters, sample=sample)
