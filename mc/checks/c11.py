"""C11 Gridded forecast files load into forecasts whose rate lookup matches the file."""
import datetime
import decimal
import hashlib
import itertools
import os

import numpy

from mc import bfs, fixtures, space
from mc.engine import Fail, result
from mc.ref import ref_quadtree as rq

ID = 'C11'
RULE = ('files written by a reference writer of the CSEP gridded-forecast ASCII format: anchor in 6 anchors x spacing in '
        '{0.1,0.05,0.25,0.5,1.0} x extents nx,ny in 1..3 (full lattices); for every (anchor, spacing): every non-empty subset '
        'of a 2x2 lattice x 3 cell orders (latitude-fast, longitude-fast, reversed); on a 3x2 lattice M in {1,2,3} magnitude '
        'bins x two magnitude grids x flags {all 1, one cell 0} x swap_latlon off/on; three number formattings; every row '
        'carries a unique rate. Lookups: every row\'s lower corner (the file\'s own floats) and centre at the lower magnitude '
        'edge and mid-bin; flagged/hole cells must be rejected. Quadtree: ASCII and CSV files for all 16 complete tilings of '
        'depth<=2. Scale histories: BFS over {scale(0.5), scale(2), scale(1), scale_to_test_date(inside|before|after)} to '
        'fixpoint from loaded and from_custom forecasts. A file is non-trivial iff it has a unit extent, a hole, a flag, a '
        'non-default order/column order or more than one magnitude bin; distinct by construction.')
ASSUMPTIONS = ['the expected rate of a lookup point is the rate of the unique row whose half-open box (floats parsed from the file '
               'text) contains it', 'the factor applied by scale_to_test_date inside the window is not prescribed by the property: only '
               'absoluteness/linearity is judged (same data as the same call on a fresh forecast, data = original x scalar)']

ANCHORS = [('0.0', '0.0'), ('-0.3', '-0.2'), ('-125.4', '31.5'), ('165.7', '-47.8'), ('4.9', '35.3'), ('-180.0', '-90.0')]
DHS = ['0.1', '0.05', '0.25', '0.5', '1.0']
T0 = datetime.datetime(2010, 1, 1)
T1 = datetime.datetime(2011, 1, 1)
D = decimal.Decimal


def cases(tier, seed):
    for (ax, ay), dh in itertools.product(ANCHORS, DHS):
        yield dict(kind='files', anchor=[ax, ay], dh=dh)
    for chunk in space.chunks(TILINGS(), 4):
        yield dict(kind='quadtree', tilings=chunk)
    yield dict(kind='scale', source='file')
    yield dict(kind='scale', source='custom')
    if tier == 'thorough':
        for (ax, ay), dh in itertools.product([('179.0', '89.0'), ('-0.05', '-0.05'), ('12.35', '-33.15')], DHS + ['0.2', '0.025']):
            yield dict(kind='files', anchor=[ax, ay], dh=dh)
        for (ax, ay), dh in itertools.product(ANCHORS, ['0.2', '0.025', '2.0']):
            yield dict(kind='files', anchor=[ax, ay], dh=dh)
    else:
        extra = [(('179.0', '89.0'), '0.1'), (('-0.05', '-0.05'), '0.05'), (('12.35', '-33.15'), '0.25'), (('4.9', '35.3'), '0.2')][seed % 4]
        yield dict(kind='files', anchor=list(extra[0]), dh=extra[1])


def TILINGS():
    """all 16 complete tilings of depth <= 2: each depth-1 tile either kept or split"""
    out = []
    for splits in itertools.product([False, True], repeat=4):
        keys = []
        for q, s in zip('0123', splits):
            keys += [q + c for c in '0123'] if s else [q]
        out.append(keys)
    return out


# ----------------------------------------------------------------------------- reference writer
def fmt(x, style):
    """x: Decimal. Returns the text written to the file."""
    if style == 'min':
        s = format(x.normalize(), 'f')
        return s if '.' in s else s + '.0'
    if style == 'f3':
        return '%.3f' % x
    return repr(float(x))


def lattice_spec(anchor, dh, cells, order, nmag, maggrid, flags, style='min'):
    """rows: list of dict(lon0,lon1,lat0,lat1,m0,m1,rate,flag) with text fields; cells: list of (c, r)."""
    ax, ay, h = D(anchor[0]), D(anchor[1]), D(dh)
    if order == 'lat-fast':
        ordered = sorted(cells, key=lambda cr: (cr[0], cr[1]))
    elif order == 'lon-fast':
        ordered = sorted(cells, key=lambda cr: (cr[1], cr[0]))
    else:
        ordered = sorted(cells, key=lambda cr: (cr[0], cr[1]))[::-1]
    m_start, m_step = (D('4.95'), D('0.1')) if maggrid == 'a' else (D('5.0'), D('0.5')) if maggrid == 'b' else (D('4.125'), D('0.25'))
    rows = []
    i = 0
    for ci, (c, r) in enumerate(ordered):
        fl = 1 if flags is None else flags[ci]
        for k in range(nmag):
            i += 1
            rows.append(dict(lon0=fmt(ax + c * h, style), lon1=fmt(ax + (c + 1) * h, style), lat0=fmt(ay + r * h, style),
                             lat1=fmt(ay + (r + 1) * h, style), m0=fmt(m_start + k * m_step, style), m1=fmt(m_start + (k + 1) * m_step, style),
                             rate=repr(i * 1e-3), flag=str(fl), cell=ci))
    return rows


def write_dat(path, rows, swap):
    with open(path, 'w') as fh:
        for r in rows:
            if swap:
                cols = [r['lat0'], r['lat1'], r['lon0'], r['lon1']]
            else:
                cols = [r['lon0'], r['lon1'], r['lat0'], r['lat1']]
            fh.write('\t'.join(cols + ['0.0', '30.0', r['m0'], r['m1'], r['rate'], r['flag']]) + '\n')


def variants(tier='quick'):
    """(cells, order, nmag, maggrid, flags, swap, style, tag) for one (anchor, dh)"""
    out = []
    for nx in (1, 2, 3):
        for ny in (1, 2, 3):
            cells = [(c, r) for c in range(nx) for r in range(ny)]
            out.append((cells, 'lat-fast', 2, 'a', None, False, 'min', f'full{nx}x{ny}'))
    base = [(0, 0), (0, 1), (1, 0), (1, 1)]
    for n in range(1, 5):
        for sub in itertools.combinations(base, n):
            for order in ('lat-fast', 'lon-fast', 'reversed'):
                if len(sub) == 1 and order != 'lat-fast':
                    continue
                out.append((list(sub), order, 2, 'a', None, False, 'min', f'subset{len(sub)}-{order}'))
    cells32 = [(c, r) for c in range(3) for r in range(2)]
    for nmag in (1, 2, 3):
        for mg in ('a', 'b', 'c'):
            for flags in (None, [1, 1, 0, 1, 1, 1]):
                for swap in (False, True):
                    out.append((cells32, 'lat-fast', nmag, mg, flags, swap, 'min', f'3x2-M{nmag}{mg}-{"flag" if flags else "noflag"}-{"swap" if swap else "noswap"}'))
    # further flag patterns: first / last cell, two cells, ALL cells flagged out, on 3x2, 2x1 and single-cell files
    for cells, flags in ((cells32, [0, 1, 1, 1, 1, 1]), (cells32, [1, 1, 1, 1, 1, 0]), (cells32, [0, 1, 1, 0, 1, 1]), (cells32, [0] * 6),
                         ([(0, 0), (1, 0)], [0, 0]), ([(0, 0), (1, 0)], [1, 0]), ([(0, 0)], [0])):
        for nmag in (1, 2):
            out.append((cells, 'lat-fast', nmag, 'a', flags, False, 'min', f'{len(cells)}cells-M{nmag}-flags{"".join(map(str, flags))}'))
    for style in ('f3', 'repr'):
        out.append((cells32, 'lat-fast', 2, 'a', None, False, style, f'3x2-format-{style}'))
        out.append(([(0, 0)], 'lat-fast', 1, 'a', None, False, style, f'1x1-format-{style}'))
    return out


def shape_class(cells):
    cols = {c for c, _ in cells}
    rows = {r for _, r in cells}
    if len(cols) == 1 and len(rows) == 1:
        return 'single-cell'
    if len(cols) == 1 or len(rows) == 1:
        return 'one-row-or-column'
    return 'general'


# ----------------------------------------------------------------------------- judging one Cartesian file
def judge_file(path, rows, swap, failures, hsh, desc, flags_present, fc=None):
    import csep
    cls = desc['cls']
    if desc.get('tag') == 'load-A-then-B':
        rep = dict(kind='files', anchor=desc['anchor'], dh=desc['dh'], only='load-A-then-B')
    else:
        rep = dict(kind='file1', **{k: desc[k] for k in ('anchor', 'dh', 'cells', 'order', 'nmag', 'maggrid', 'flags', 'swap', 'style')})

    def fail(api, what, detail):
        failures.append(Fail(f'{api}|{what}|{cls}', f'{detail} | file: anchor={desc["anchor"]} dh={desc["dh"]} variant={desc["tag"]}', rep))
    if fc is None:
        try:
            fc = csep.load_gridded_forecast(path, swap_latlon=swap, start_date=T0, end_date=T1)
        except Exception as e:
            fail('csep.load_gridded_forecast', type(e).__name__, f'{type(e).__name__}: {e}')
            return 1
    evals = 1
    # the caller owns what forecast.data returns: overwriting that array must not change what the forecast answers
    try:
        d_ = fc.data
        d_[...] = -7.0
    except (ValueError, TypeError):
        pass
    P = [dict(lon0=float(r['lon0']), lon1=float(r['lon1']), lat0=float(r['lat0']), lat1=float(r['lat1']), m0=float(r['m0']),
              m1=float(r['m1']), rate=float(r['rate']), flag=int(r['flag']), cell=r['cell']) for r in rows]
    mags = []
    for p in P:
        if p['m0'] not in mags:
            mags.append(p['m0'])
    got_m = [float(x) for x in fc.magnitudes]
    hsh.update(repr((got_m, fixtures.norm(fc.data))).encode())
    if got_m != mags:
        fail('GriddedForecast.magnitudes', 'differ-from-file-lower-edges', f'{got_m} vs file {mags}')
    if not flags_present:
        tot = float(fc.sum())
        want = sum(p['rate'] for p in P)
        evals += 1
        if abs(tot - want) > 1e-12 * want:
            fail('GriddedForecast.sum', 'differs-from-sum-of-rate-column', f'{tot!r} vs {want!r}')
    # lookups
    good = [p for p in P if p['flag'] == 1]
    pts = []
    for p in good:
        for (lo, la) in ((p['lon0'], p['lat0']), ((p['lon0'] + p['lon1']) / 2, (p['lat0'] + p['lat1']) / 2)):
            for m in (p['m0'], (p['m0'] + p['m1']) / 2):
                pts.append((lo, la, m, p['rate'], 'corner' if lo == p['lon0'] else 'centre'))
            if lo != p['lon0']:
                # magnitudes a small decimal distance below the bin's upper edge (far outside round-off: still this row's bin)
                for delta in (1e-3, 2e-5, 5e-6, 1e-6, 1e-9):
                    if p['m1'] - delta > p['m0']:
                        pts.append((lo, la, p['m1'] - delta, p['rate'], 'magnitude-just-below-upper-edge'))
    if pts:
        lons = numpy.array([x[0] for x in pts])
        lats = numpy.array([x[1] for x in pts])
        ms = numpy.array([x[2] for x in pts])
        want = numpy.array([x[3] for x in pts])
        try:
            got = numpy.asarray(fc.get_rates(lons, lats, ms), dtype=float)
            evals += len(pts)
            hsh.update(got.tobytes())
            bad = numpy.nonzero(got != want)[0]
            if len(bad):
                i = int(bad[0])
                fail('GriddedForecast.get_rates', f'rate-of-another-row-at-{pts[i][4]}', f'point (lon,lat,mag)=({lons[i]!r},{lats[i]!r},{ms[i]!r}) -> rate {got[i]!r}, the row containing it has {want[i]!r} [{len(bad)} of {len(pts)} lookups]')
        except ValueError:
            # find the first point that is rejected on its own
            for i, x in enumerate(pts):
                try:
                    g = float(numpy.asarray(fc.get_rates(numpy.array([x[0]]), numpy.array([x[1]]), numpy.array([x[2]])))[0])
                    if g != x[3]:
                        fail('GriddedForecast.get_rates', f'rate-of-another-row-at-{x[4]}', f'point ({x[0]!r},{x[1]!r},{x[2]!r}) -> {g!r}, expected {x[3]!r}')
                        break
                except ValueError as e:
                    fail('GriddedForecast.get_rates', f'rejects-{x[4]}-of-its-own-row', f'point (lon,lat,mag)=({x[0]!r},{x[1]!r},{x[2]!r}) of a file row is rejected: {e}; region xs={numpy.asarray(fc.region.xs).tolist()[:4]} ys={numpy.asarray(fc.region.ys).tolist()[:4]} dh={fc.region.dh!r}')
                    break
            evals += len(pts)
        except Exception as e:
            fail('GriddedForecast.get_rates', type(e).__name__, f'{type(e).__name__}: {e}')
        # target_event_rates through a catalog at the cell centres
        cen = [x for x in pts if x[4] == 'centre']
        try:
            cat = fixtures.catalog([(f'e{i}', 1262304000000 + i, x[1], x[0], 5.0, x[2]) for i, x in enumerate(cen)])
            ter, nf = fc.target_event_rates(cat)
            evals += 1
            if not numpy.array_equal(numpy.asarray(ter, dtype=float), numpy.array([x[3] for x in cen])):
                fail('GriddedForecast.target_event_rates', 'differs-from-file-rates', f'{numpy.asarray(ter).tolist()[:6]}')
        except ValueError:
            pass   # already reported through get_rates
    # cells flagged 0 and holes lie outside the region
    seen_cells = set()
    for p in P:
        if p['flag'] == 0 and p['cell'] not in seen_cells:
            seen_cells.add(p['cell'])
            try:
                g = fc.get_rates(numpy.array([(p['lon0'] + p['lon1']) / 2]), numpy.array([(p['lat0'] + p['lat1']) / 2]), numpy.array([p['m0']]))
                fail('GriddedForecast.get_rates', 'flagged-out-cell-not-rejected', f'centre of a cell flagged 0 returns rate {numpy.asarray(g).tolist()}')
            except ValueError:
                pass
            evals += 1
            # the forecast's region reports the same cell as outside through its membership test and the catalog's spatial filter
            try:
                clon, clat = (p['lon0'] + p['lon1']) / 2, (p['lat0'] + p['lat1']) / 2
                msk = bool(numpy.asarray(fc.region.get_masked(numpy.array([clon]), numpy.array([clat])))[0])
                kept = fixtures.catalog([('f0', 1262304000000, clat, clon, 5.0, p['m0'])]).filter_spatial(fc.region, in_place=False).event_count
                evals += 2
                if not msk or kept != 0:
                    fail('GriddedForecast.region', 'flagged-out-cell-reported-inside', f'centre of a cell flagged 0: region.get_masked -> {msk}, filter_spatial(region) keeps {kept} event(s)')
            except Exception as e:
                fail('GriddedForecast.region', type(e).__name__, f'{type(e).__name__}: {e}')
    for hole in desc.get('holes', []):
        try:
            g = fc.get_rates(numpy.array([hole[0]]), numpy.array([hole[1]]), numpy.array([mags[0]]))
            fail('GriddedForecast.get_rates', 'hole-not-rejected', f'point {hole} in a missing cell returns rate {numpy.asarray(g).tolist()}')
        except ValueError:
            pass
        evals += 1
    # marginals sum to the total
    try:
        t = float(fc.sum())
        if abs(float(numpy.sum(fc.spatial_counts())) - t) > 1e-12 * abs(t) or abs(float(numpy.sum(fc.magnitude_counts())) - t) > 1e-12 * abs(t):
            fail('GriddedForecast', 'marginals-do-not-sum-to-total', f'{float(numpy.sum(fc.spatial_counts()))}, {float(numpy.sum(fc.magnitude_counts()))} vs {t}')
        evals += 2
    except Exception as e:
        fail('GriddedForecast.spatial_counts', type(e).__name__, f'{e}')
    return evals


def run_files(case, failures, hsh):
    wd = fixtures.workdir()
    evals = states = nontriv = 0
    anchor, dh = case['anchor'], case['dh']
    only = case.get('only')
    for (cells, order, nmag, mg, flags, swap, style, tag) in variants():
        if only and tag != only:
            continue
        if style == 'f3' and len(dh.split('.')[1]) > 3:
            continue
        rows = lattice_spec(anchor, dh, cells, order, nmag, mg, flags, style)
        path = os.path.join(wd, f'fc_{os.getpid()}.dat')
        write_dat(path, rows, swap)
        ax, ay, h = D(anchor[0]), D(anchor[1]), D(dh)
        cols = range(min(c for c, _ in cells), max(c for c, _ in cells) + 1)
        rws = range(min(r for _, r in cells), max(r for _, r in cells) + 1)
        holes = [(float(ax + c * h + h / 2), float(ay + r * h + h / 2)) for c in cols for r in rws if (c, r) not in cells]
        desc = dict(anchor=anchor, dh=dh, cells=[list(c) for c in cells], order=order, nmag=nmag, maggrid=mg, flags=flags, swap=swap,
                    style=style, tag=tag, holes=holes, cls=shape_class(cells))
        evals += judge_file(path, rows, swap, failures, hsh, desc, flags is not None)
        os.remove(path)
        states += 1
        if shape_class(cells) != 'general' or holes or flags or swap or order != 'lat-fast' or nmag > 1:
            nontriv += 1
    # history: two files with the SAME cells but different magnitude bins are loaded one after the other; the forecast
    # loaded first must still answer from its own file afterwards (nothing may be shared between the two loads)
    if not only or only == 'load-A-then-B':
        import csep
        cells32 = [(c, r) for c in range(3) for r in range(2)]
        for flags in (None, [1, 1, 0, 1, 1, 1]):
            rows_a = lattice_spec(anchor, dh, cells32, 'lat-fast', 2, 'a', flags, 'min')
            rows_b = lattice_spec(anchor, dh, cells32, 'lat-fast', 3, 'b', flags, 'min')
            pa = os.path.join(wd, f'fa_{os.getpid()}.dat')
            pb = os.path.join(wd, f'fb_{os.getpid()}.dat')
            write_dat(pa, rows_a, False)
            write_dat(pb, rows_b, False)
            desc = dict(anchor=anchor, dh=dh, cells=[list(c) for c in cells32], order='lat-fast', nmag=2, maggrid='a', flags=flags, swap=False,
                        style='min', tag='load-A-then-B', holes=[], cls='second-file-loaded-in-between')
            try:
                fa = csep.load_gridded_forecast(pa, start_date=T0, end_date=T1)
                fb = csep.load_gridded_forecast(pb, start_date=T0, end_date=T1)
                evals += judge_file(pb, rows_b, False, failures, hsh, dict(desc, nmag=3, maggrid='b'), flags is not None, fc=fb)
                evals += judge_file(pa, rows_a, False, failures, hsh, desc, flags is not None, fc=fa)
            except Exception as e:
                failures.append(Fail(f'csep.load_gridded_forecast|{type(e).__name__}|second-file-loaded-in-between', f'{type(e).__name__}: {e}', dict(kind='files', anchor=anchor, dh=dh, only='load-A-then-B')))
            os.remove(pa)
            os.remove(pb)
            states += 1
            nontriv += 1
    return evals, nontriv, states


# ----------------------------------------------------------------------------- quadtree files
def run_quadtree(case, failures, hsh):
    from csep.core.forecasts import GriddedForecast
    from csep.utils import readers
    wd = fixtures.workdir()
    evals = states = nontriv = 0
    mags = [5.0, 5.5, 6.0]
    for keys in case['tilings']:
        for kind in ('ascii', 'csv'):
            for order in ('given', 'reversed'):
                ks = list(keys) if order == 'given' else list(keys)[::-1]
                path = os.path.join(wd, f'q_{os.getpid()}.{"dat" if kind == "ascii" else "csv"}')
                rate = {}
                i = 0
                with open(path, 'w') as fh:
                    if kind == 'csv':
                        fh.write('Quadkey,depth_min,depth_max,' + ','.join(repr(m) for m in mags) + '\n')
                    for qk in ks:
                        w, s, e, n = rq.bounds(qk)
                        rr = []
                        for k, m in enumerate(mags):
                            i += 1
                            rate[(qk, k)] = i * 1e-3
                            rr.append(repr(i * 1e-3))
                            if kind == 'ascii':
                                fh.write(' '.join([qk, repr(w), repr(e), repr(s), repr(n), '0.0', '30.0', repr(m), repr(m + 0.5), repr(i * 1e-3)]) + '\n')
                        if kind == 'csv':
                            fh.write(','.join([qk, '0', '30'] + rr) + '\n')
                site = f'readers.quadtree_{kind}_loader'
                rep = dict(kind='quad1', keys=keys, fmt=kind, order=order)
                try:
                    loader = readers.quadtree_ascii_loader if kind == 'ascii' else readers.quadtree_csv_loader
                    fc = GriddedForecast.from_custom(loader, func_args=(path,))
                except Exception as e:
                    failures.append(Fail(f'{site}|{type(e).__name__}|any', f'{type(e).__name__}: {e} keys={keys}', rep))
                    os.remove(path)
                    continue
                os.remove(path)
                evals += 1
                states += 1
                nontriv += 1
                try:
                    gm = [float(x) for x in fc.magnitudes]
                    if gm != mags:
                        failures.append(Fail(f'{site}|magnitudes-differ-from-file|any', f'{list(fc.magnitudes)} vs {mags}', rep))
                except Exception as e:
                    failures.append(Fail(f'{site}|magnitudes-not-numeric:{type(e).__name__}|any', f'magnitudes={list(fc.magnitudes)!r}: {e}', rep))
                pts = []
                for qk in ks:
                    w, s, e, n = rq.bounds(qk)
                    for (lo, la) in ((w, s), ((w + e) / 2, (s + n) / 2)):
                        for k, m in enumerate(mags):
                            pts.append((lo, la, m, rate[(qk, k)]))
                            pts.append((lo, la, m + 0.25, rate[(qk, k)]))
                try:
                    got = numpy.asarray(fc.get_rates(numpy.array([p[0] for p in pts]), numpy.array([p[1] for p in pts]), numpy.array([p[2] for p in pts])), dtype=float)
                    evals += len(pts)
                    hsh.update(got.tobytes())
                    want = numpy.array([p[3] for p in pts])
                    if got.shape != want.shape or not numpy.array_equal(got, want):
                        i = int(numpy.nonzero(got != want)[0][0]) if got.shape == want.shape else 0
                        failures.append(Fail(f'{site}->get_rates|rate-of-another-row|any', f'point {pts[i][:3]} -> {got[i] if got.shape == want.shape else got.shape}, expected {want[i]}', rep))
                    tot = float(fc.sum())
                    if abs(tot - sum(rate.values())) > 1e-12 * tot:
                        failures.append(Fail(f'{site}->sum|differs-from-sum-of-rates|any', f'{tot} vs {sum(rate.values())}', rep))
                except Exception as e:
                    failures.append(Fail(f'{site}->get_rates|{type(e).__name__}|any', f'{type(e).__name__}: {e} (magnitudes={list(fc.magnitudes)[:3]!r})', rep))
    return evals, nontriv, states


# ----------------------------------------------------------------------------- scale histories (BFS)
SCALE_OPS = ['scale(0.5)', 'scale(2)', 'scale(1)', 'date(inside)', 'date(before)', 'date(after)', 'date(inside2)']


def run_scale(case, failures, hsh):
    import csep
    from csep.core.forecasts import GriddedForecast
    wd = fixtures.workdir()
    rows = lattice_spec(('0.0', '0.0'), '0.1', [(c, r) for c in range(2) for r in range(2)], 'lat-fast', 2, 'a', None)
    path = os.path.join(wd, f'sc_{os.getpid()}.dat')
    write_dat(path, rows, False)
    orig = numpy.array([float(r['rate']) for r in rows]).reshape(4, 2)

    def build():
        if case['source'] == 'file':
            fc = csep.load_gridded_forecast(path, start_date=T0, end_date=T1)
        else:
            reg = fixtures.cartesian_region([(0.0, 0.0), (0.0, 0.1), (0.1, 0.0), (0.1, 0.1)], 0.1)
            fc = GriddedForecast.from_custom(lambda: (orig.copy(), reg, numpy.array([4.95, 5.05])), start_time=T0, end_time=T1)
        # every history starts with an inspection of the forecast (total and both marginals are READ before the first operation)
        _ = float(fc.sum()), float(fc.event_count), numpy.sum(fc.spatial_counts()), numpy.sum(fc.magnitude_counts())
        try:
            d_ = fc.data           # ... and the array handed out by .data is overwritten by the caller
            d_[...] = -7.0
        except (ValueError, TypeError):
            pass
        return fc

    def apply_op(fc, op):
        if op.startswith('scale('):
            v = float(op[6:-1])
            fc.scale(int(v) if v == int(v) else v)
        else:
            d = {'date(inside)': datetime.datetime(2010, 7, 1), 'date(inside2)': datetime.datetime(2010, 3, 1, 12), 'date(before)': datetime.datetime(2009, 6, 1),
                 'date(after)': datetime.datetime(2012, 1, 1)}[op]
            fc.scale_to_test_date(d)
        totals.append((float(fc.sum()), float(fc.event_count), float(numpy.sum(fc.data))))     # the total is READ after every operation
        try:
            d_ = fc.data
            d_[...] = -7.0         # the caller overwrites the array it was handed
        except (ValueError, TypeError):
            pass
        _ = fc.spatial_counts(), fc.magnitude_counts()                                          # ... and so are the marginals
        return numpy.array(fc.data, dtype=float)

    totals = []

    def canon(fc):
        return hashlib.sha1(numpy.array(fc.data, dtype=float).tobytes()).hexdigest()

    fresh = {}
    for op in SCALE_OPS:
        fresh[op] = apply_op(build(), op)
    cnt = [0]

    def judge(hist, op, obs, obj):
        cnt[0] += 1
        hsh.update(obs.tobytes())
        eff = [h for h in list(hist) + [op] if h not in ('date(before)', 'date(after)')]
        want = fresh[eff[-1]] if eff else orig
        rep = dict(kind='scale1', source=case['source'], history=list(hist), op=op)
        if not numpy.allclose(obs, want, rtol=1e-13, atol=0):
            failures.append(Fail(f'GriddedForecast.scale|data-is-not-original-times-last-factor|{"after-history" if hist else "fresh"}',
                                 f'history {list(hist)} then {op}: data[0]={obs.ravel()[:3].tolist()}, original x last effective factor gives {want.ravel()[:3].tolist()}', rep))
        ratio = obs / orig
        if not numpy.allclose(ratio, ratio.ravel()[0], rtol=1e-13, atol=0):
            failures.append(Fail('GriddedForecast.scale|not-linear|any', f'{ratio.tolist()}', rep))
        # rates looked up for target events reflect the CURRENT data (original x the last effective factor), once
        try:
            tcat = fixtures.catalog([(f't{i}', 1262304000000 + i, 0.05 + 0.1 * (i // 2), 0.05 + 0.1 * (i % 2), 5.0, 5.0 + 0.1 * (i % 2)) for i in range(4)])
            ter, nf = obj.target_event_rates(tcat)
            g_ = numpy.asarray(obj.get_rates(tcat.get_longitudes(), tcat.get_latitudes(), tcat.get_magnitudes()), dtype=float)
            cur = numpy.array(obs, dtype=float)
            ii = numpy.asarray(obj.region.get_index_of(tcat.get_longitudes(), tcat.get_latitudes()))
            mm = numpy.asarray(obj.get_magnitude_index(tcat.get_magnitudes()))
            want_t = cur[ii, mm]
            if not (numpy.allclose(numpy.asarray(ter, dtype=float), want_t, rtol=1e-13, atol=0) and numpy.allclose(g_, want_t, rtol=1e-13, atol=0) and abs(float(nf) - float(cur.sum())) <= 1e-12 * float(cur.sum())):
                failures.append(Fail('GriddedForecast.target_event_rates|differs-from-the-current-data|scaled',
                                     f'history {list(hist)} then {op}: target_event_rates {numpy.asarray(ter).tolist()} (n_fore {float(nf)!r}), get_rates {g_.tolist()}, current data at those bins {want_t.tolist()} (sum {float(cur.sum())!r})', rep))
        except Exception as e:
            failures.append(Fail(f'GriddedForecast.target_event_rates|{type(e).__name__}|scaled', f'{type(e).__name__}: {e}', rep))
        try:
            sc_c = numpy.asarray(obj.spatial_counts(cartesian=True), dtype=float)
            if abs(float(numpy.nansum(sc_c)) - float(numpy.sum(obs))) > 1e-12 * float(numpy.sum(obs)):
                failures.append(Fail('GriddedForecast.spatial_counts[cartesian=True]|does-not-sum-to-total|scaled',
                                     f'history {list(hist)} then {op}: bounding-box form sums to {float(numpy.nansum(sc_c))!r}, the data to {float(numpy.sum(obs))!r}', rep))
        except Exception as e:
            failures.append(Fail(f'GriddedForecast.spatial_counts[cartesian=True]|{type(e).__name__}|scaled', f'{type(e).__name__}: {e}', rep))
        t = float(obj.sum())
        if abs(float(numpy.sum(obj.spatial_counts())) - t) > 1e-12 * t or abs(float(numpy.sum(obj.magnitude_counts())) - t) > 1e-12 * t:
            failures.append(Fail('GriddedForecast|marginals-do-not-sum-to-total|scaled', f'history {list(hist)} {op}', rep))
        if totals:
            s_, ec_, ds_ = totals[-1]
            if abs(s_ - ds_) > 1e-12 * abs(ds_) or abs(ec_ - ds_) > 1e-12 * abs(ds_) or abs(t - float(numpy.sum(obs))) > 1e-12 * abs(t):
                failures.append(Fail('GriddedForecast.sum|total-is-not-the-sum-of-the-current-data|scaled',
                                     f'history {list(hist)} then {op}: sum()={s_!r} event_count={ec_!r} but data sums to {ds_!r}', rep))
        if op in ('scale(0.5)', 'scale(2)', 'scale(1)'):
            f = float(op[6:-1])
            if not numpy.allclose(obs, orig * f, rtol=1e-15, atol=0):
                failures.append(Fail('GriddedForecast.scale|factor-not-applied-absolutely|any', f'{op} after {list(hist)} gives {obs.ravel()[:3].tolist()}', rep))
    if case.get('history') is not None:
        fc = build()
        for h in case['history']:
            apply_op(fc, h)
        obs = apply_op(fc, case['op'])
        judge(tuple(case['history']), case['op'], obs, fc)
        st = dict(states=1, transitions=1)
    else:
        st = bfs.explore(build, SCALE_OPS, apply_op, canon, judge, max_depth=6)
    os.remove(path)
    return st


def run_case(case):
    failures = []
    hsh = hashlib.sha1()
    counters = {}
    k = case['kind']
    if k == 'files':
        evals, nontriv, states = run_files(case, failures, hsh)
    elif k == 'file1':
        rows = lattice_spec(case['anchor'], case['dh'], [tuple(c) for c in case['cells']], case['order'], case['nmag'], case['maggrid'], case['flags'], case['style'])
        path = os.path.join(fixtures.workdir(), f'f1_{os.getpid()}.dat')
        write_dat(path, rows, case['swap'])
        cells = [tuple(c) for c in case['cells']]
        ax, ay, h = D(case['anchor'][0]), D(case['anchor'][1]), D(case['dh'])
        cols = range(min(c for c, _ in cells), max(c for c, _ in cells) + 1)
        rws = range(min(r for _, r in cells), max(r for _, r in cells) + 1)
        holes = [(float(ax + c * h + h / 2), float(ay + r * h + h / 2)) for c in cols for r in rws if (c, r) not in cells]
        desc = dict(case, tag='replay', holes=holes, cls=shape_class(cells))
        evals = judge_file(path, rows, case['swap'], failures, hsh, desc, case['flags'] is not None)
        os.remove(path)
        nontriv, states = 1, 1
    elif k == 'quadtree':
        evals, nontriv, states = run_quadtree(case, failures, hsh)
    elif k == 'quad1':
        evals, nontriv, states = run_quadtree(dict(tilings=[case['keys']]), failures, hsh)
        failures = [f for f in failures if f['case'].get('fmt') == case['fmt']] or failures
    else:
        st = run_scale(case, failures, hsh)
        evals, nontriv, states = st['transitions'], st['transitions'], st['states']
        counters['scale_bfs_fixpoint'] = 1 if st.get('fixpoint_reached') else 0
    seen, uniq = set(), []
    for f in failures:
        if f['signature'] not in seen:
            seen.add(f['signature'])
            uniq.append(f)
    sample = {kk: vv for kk, vv in case.items() if kk != 'tilings'}
    return result(evals=evals, states=states, transitions=evals, nontrivial=nontriv, failures=uniq, digest=hsh.hexdigest(),
                  counters=counters, sample=sample)
