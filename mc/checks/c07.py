"""C07 Number tests report the exact tail probabilities of the forecast count law.

Real GriddedForecast / CSEPCatalog / CatalogForecast objects are pushed through the three public number tests;
`.quantile` = (delta1, delta2) is compared with tails of the count law tabulated by mc.ref.ref_counts.
"""
import hashlib
import math

import numpy

from mc import fixtures, space
from mc.engine import Fail, result
from mc.ref import ref_counts

ID = 'C07'
RULE = ('gridded N-test and NBD N-test: every pair (forecast total mu, n_obs) of a fixed mu grid (11 values '
        '1e-6..1e5; thorough 23) and the n_obs grid {0,1,2,3,5,10,11,33,34,99,100,101,1e3,1e4,1e5} u {floor mu, '
        'ceil mu, floor(mu -/+ sqrt mu), floor(mu -/+ sqrt var)} taken over ALL mu of the grid; each mu reached by a '
        '6-bin GriddedForecast whose float rates sum to mu (direct) and by scale(k) of a unit-total forecast '
        '(scaled; thorough also scale(mu/250) of a 250-total forecast); NBD variance = mu*{1.01,1.5,2,10,100} '
        '(thorough + {1.001,5,1000} and the absolute variance 23541 of the docstring for 30 <= mu < 23541). Catalog N-test: every '
        'multiset of synthetic-catalog sizes of size 1..5 over {0,1,2,3} (thorough 1..7 over {0..4}), presented '
        'sorted and reversed, as a real in-memory CatalogForecast, n_obs 0..4 (thorough 0..5). An evaluated '
        '(law, n_obs) pair is non-trivial iff the reference point mass P(N = n_obs) > 1e-6 (only there an '
        'inclusive tail differs visibly from an exclusive one); pairs are distinct by construction.')
ASSUMPTIONS = [
    'reference tails: point masses walked outward from the mode in log space (lgamma at the mode, log1p of the '
    'exact term ratio, compensated running sum), normalised by their fsum total, tails by math.fsum; validated '
    'off-line against 50-60 digit decimal arithmetic to < 1e-13 absolute on the whole grid',
    'the forecast total used by the reference is the exactly rounded rational sum of the float rates (times the '
    'float scale factor); the library total (numpy.sum of data*scale) may differ from it by a few ulps, which moves '
    'a tail by < 1e-12',
    'accepted numerical error of a reported tail: 1e-11 absolute + 1e-8 relative to the reference tail; '
    'delta1 + delta2 = 1 + P(N = n_obs) to 1e-9; monotonicity along the mu grid is judged with 1e-11 slack',
    'NBD monotonicity in the forecast mean is judged along a fixed dispersion ratio var/mean (where the law is '
    'stochastically increasing in the mean); at a fixed absolute variance P(N >= n) is not monotone in the mean '
    'even mathematically, so the absolute-variance block is judged on values, identity and range only',
    'totals and counts between the grid letters are not explored',
]

ATOL = 1e-11
RTOL = 1e-8
ID_ATOL = 1e-9
MONO_SLACK = 1e-11
VISIBLE = 1e-6

WEIGHTS = [0.1, 0.2, 0.3, 0.15, 0.05, 0.2]          # 3 cells x 2 magnitude bins
ORIGINS = [(0.0, 0.0), (0.1, 0.0), (0.0, 0.1)]
DH = 0.1
MAGS = [5.0, 6.0]
T0 = 1262304000000

MUS_Q = [1e-6, 1e-3, 0.5, 1.0, 2.5, 10.0, 33.3, 100.0, 1e3, 1e4, 1e5]
MUS_EXTRA = [1e-5, 1e-4, 0.01, 0.1, 0.9999999, 5.0, 20.5, 50.0, 333.3, 5e3, 3.3e4, 99999.5]
MUS_T = sorted(MUS_Q + MUS_EXTRA)
N_FIXED = [0, 1, 2, 3, 5, 10, 11, 33, 34, 99, 100, 101, 1000, 10000, 100000]
FACTORS_Q = [1.01, 1.5, 2.0, 10.0, 100.0]
FACTORS_EXTRA = [1.001, 5.0, 1000.0]
ABS_VARIANCE = 23541.0
N_MAX = 100000


# ------------------------------------------------------------------------------------------ enumeration
def _specials(mu, var=None):
    out = {int(math.floor(mu)), int(math.ceil(mu))}
    for sd in [math.sqrt(mu)] + ([math.sqrt(var)] if var else []):
        out.add(int(math.floor(mu - sd)))
        out.add(int(math.floor(mu + sd)))
    return {n for n in out if 0 <= n <= N_MAX}


def n_grid(mus, factor=None):
    ns = set(N_FIXED)
    for mu in mus:
        if factor is None:
            ns |= _specials(mu)
        elif isinstance(factor, float):
            ns |= _specials(mu, mu * factor)
        else:
            ns |= _specials(mu, ABS_VARIANCE)
    return sorted(ns)


def _forecast_spec(route, mu):
    """(rates, scale) of the 6-bin forecast that reaches the total mu by the given route."""
    if route == 'direct':
        return [mu * w for w in WEIGHTS], None
    if route == 'scaled':
        k = int(mu) if (float(mu).is_integer() and mu >= 1) else mu
        return list(WEIGHTS), k
    if route == 'scaled250':
        return [250.0 * w for w in WEIGHTS], mu / 250.0
    if route == 'subthreshold-obs':
        # the observed catalog was not cut to the forecast's magnitude range: every third event lies below the lowest edge
        return [mu * w for w in WEIGHTS], ['subthreshold-obs']
    if route == 'data-copy-edited':
        # history: the caller normalises the array that forecast.data RETURNED, in place, before the test
        return [mu * w for w in WEIGHTS], ['data-copy-edited']
    if route == 'int-rates-scaled':
        # the rates are stored as an INTEGER array (counts per bin), the total mu is reached through a fractional scale factor
        return [1, 2, 3, 4, 5, 6], ['int-rates', mu / 21.0]
    if route == 'read-then-scaled':
        # history on one forecast object: its total is read (and an N-test run) BEFORE it is scaled to mu
        k = int(mu) if (float(mu).is_integer() and mu >= 1) else mu
        return list(WEIGHTS), ['read-first', k]
    raise ValueError(route)


def _law_cases(mus, routes, factors, with_poisson=True):
    for route in routes:
        kinds = ([('poisson', None)] if with_poisson else []) + [('nbd', f) for f in factors]
        for kind, factor in kinds:
            # absolute variance: means for which var/mean <= ~800 (the effective support of the law is ~745*var/mean
            # terms; below mean 30 the reference table would have > 1e6 .. 1e13 entries) and mean < var
            grid = [m for m in mus if not (factor == 'abs' and not (30.0 <= m and m * 1.0001 < ABS_VARIANCE))]
            ns = n_grid(grid, factor)
            prev = None
            for mu in grid:
                rates, scale = _forecast_spec(route, mu)
                variance = None if kind == 'poisson' else (ABS_VARIANCE if factor == 'abs' else mu * factor)
                cur = dict(rates=rates, scale=scale, variance=variance)
                yield dict(kind=kind, route=route, mu=mu, factor=factor, ns=ns,
                           prev=(None if factor == 'abs' else prev), **cur)
                prev = cur


def _catalog_cases(alphabet, max_size, n_max, chunk):
    for ms in space.chunks(space.multisets(alphabet, 1, max_size), chunk):
        yield dict(kind='catalog', msets=[list(m) for m in ms], ns=list(range(n_max + 1)))


def cases(tier, seed):
    out = []
    seen = set()

    def add(it):
        for c in it:
            key = repr(sorted(c.items(), key=lambda kv: kv[0]))
            if key not in seen:
                seen.add(key)
                out.append(c)
    # simplest first: counting law, then Poisson, then NBD
    add(_catalog_cases([0, 1, 2, 3], 5, 4, 5))
    # synthetic catalogs and observations of ~1e5 events whose sizes differ by 1 (relative 1e-5) and by more
    for ms in ([99999, 100000, 100001, 100001], [99990, 100000, 100400], [12345, 12346, 12346, 12347]):
        add([dict(kind='catalog', msets=[ms], ns=sorted(set(ms + [ms[0] - 1, ms[-1] + 1])))])
    for ms in space.chunks(space.multisets([0, 1, 2, 3], 1, 3), 6):
        add([dict(kind='catalog_history', msets=[list(m) for m in ms], ns=[0, 1, 2], firsts=['number_test', 'iterate', 'get_event_counts'])])
    add(_law_cases(MUS_Q, ['direct', 'scaled', 'read-then-scaled', 'subthreshold-obs', 'data-copy-edited', 'int-rates-scaled'], []))
    add(_law_cases(MUS_Q, ['direct', 'scaled', 'subthreshold-obs'], FACTORS_Q, with_poisson=False))
    if tier == 'quick':
        # seed-selected additional complete block of the thorough space (all mu x all n for one extra variance law)
        extra = (FACTORS_EXTRA + ['abs'])[seed % 4]
        add(_law_cases(MUS_Q, ['direct'], [extra], with_poisson=False))
        return out
    for extra in FACTORS_EXTRA + ['abs']:
        add(_law_cases(MUS_Q, ['direct'], [extra], with_poisson=False))
    add(_catalog_cases([0, 1, 2, 3, 4], 7, 5, 10))
    add(_law_cases(MUS_T, ['direct', 'scaled', 'scaled250', 'read-then-scaled'], FACTORS_Q + FACTORS_EXTRA + ['abs']))
    return out


# ------------------------------------------------------------------------------------------ real objects
_REGION = None
_OBS_CACHE = {}


def region():
    global _REGION
    if _REGION is None:
        _REGION = fixtures.cartesian_region(ORIGINS, DH, magnitudes=MAGS)
    return _REGION


def observed_catalog(n, sub=False):
    """Real CSEPCatalog with n events (all in cell 0, magnitude 5.5; sub: every third one below the lowest magnitude edge)."""
    from csep.core.catalogs import CSEPCatalog
    if sub:
        base = observed_catalog(n)
        data = base.catalog.copy()
        data['magnitude'][1::3] = MAGS[0] - 1.5
        return CSEPCatalog(data=data, region=region(), name='obs')
    if n in _OBS_CACHE:
        return _OBS_CACHE[n]
    data = numpy.zeros(n, dtype=CSEPCatalog.dtype)
    if n:
        data['id'] = numpy.arange(n).astype('S12')
        data['origin_time'] = T0 + 1000 * numpy.arange(n, dtype=numpy.int64)
        data['latitude'] = 0.05
        data['longitude'] = 0.05
        data['depth'] = 10.0
        data['magnitude'] = 5.5
    cat = CSEPCatalog(data=data, region=region(), name='obs')
    if n > 2000:        # big catalogs (25 MB each at n = 1e5): keep only the latest one
        for k in [k for k in _OBS_CACHE if k > 2000]:
            del _OBS_CACHE[k]
    _OBS_CACHE[n] = cat
    return cat


def build_forecast(rates, scale):
    if isinstance(scale, (list, tuple)) and scale[0] == 'int-rates':
        from csep.core.forecasts import GriddedForecast
        fc = GriddedForecast(data=numpy.array(rates, dtype=numpy.int64).reshape(len(ORIGINS), len(MAGS)), region=region(), magnitudes=numpy.array(MAGS), name='fc')
        return fc.scale(scale[1])
    fc = fixtures.gridded_forecast(numpy.array(rates, dtype=float).reshape(len(ORIGINS), len(MAGS)), region(), MAGS)
    if isinstance(scale, (list, tuple)) and scale[0] == 'subthreshold-obs':
        return fc
    if isinstance(scale, (list, tuple)) and scale[0] == 'data-copy-edited':
        d = fc.data
        try:
            d /= d.sum()
            d[...] = 0.0
        except ValueError:
            pass            # a read-only array protects the forecast just as well
        return fc
    if isinstance(scale, (list, tuple)):
        from csep.core import poisson_evaluations
        _ = fc.event_count, fc.sum()
        poisson_evaluations.number_test(fc, observed_catalog(1))
        scale = scale[1]
    if scale is not None:
        fc = fc.scale(scale)
    return fc


def synthetic_forecast(sizes):
    from csep.core.forecasts import CatalogForecast
    reg = region()
    cats = []
    eid = 0
    for i, s in enumerate(sizes):
        if s > 1000:
            # many events: the structured array is written directly (same fields as below)
            from csep.core.catalogs import CSEPCatalog
            data = numpy.zeros(s, dtype=CSEPCatalog.dtype)
            j = numpy.arange(s)
            data['id'] = (eid + 1 + j).astype('S12')
            data['origin_time'] = T0 + 1000 * (eid + 1 + j)
            data['latitude'] = 0.05
            data['longitude'] = 0.05 + 0.1 * (j % 2)
            data['depth'] = 10.0
            data['magnitude'] = 5.5 + (j % 2)
            eid += s
            cats.append(CSEPCatalog(data=data, region=reg, catalog_id=i, name='fc'))
            continue
        evs = []
        for j in range(s):
            eid += 1
            evs.append((f's{eid}', T0 + 1000 * eid, 0.05, 0.05 + 0.1 * (j % 2), 10.0, 5.5 + (j % 2)))
        cats.append(fixtures.catalog(evs, region=reg, catalog_id=i, name='fc'))
    return CatalogForecast(catalogs=cats, n_cat=len(cats), region=reg, name='fc')


SITES = {'poisson': 'csep.core.poisson_evaluations.number_test',
         'nbd': 'csep.core.binomial_evaluations.negative_binomial_number_test',
         'catalog': 'csep.core.catalog_evaluations.number_test'}


def _plain_scale(scale):
    if isinstance(scale, (list, tuple)):
        return scale[1] if len(scale) > 1 else None
    return scale


def call_law(kind, spec, n):
    """One call of the public test on fresh real objects -> (delta1, delta2, observed_statistic, forecast total)."""
    from csep.core import poisson_evaluations, binomial_evaluations
    fc = build_forecast(spec['rates'], spec['scale'])
    obs = observed_catalog(n, sub=(isinstance(spec['scale'], (list, tuple)) and spec['scale'][0] == 'subthreshold-obs'))
    total = float(fc.event_count)
    if kind == 'poisson':
        res = poisson_evaluations.number_test(fc, obs)
    else:
        res = binomial_evaluations.negative_binomial_number_test(fc, obs, spec['variance'])
    return _pair(res.quantile) + (res.observed_statistic, total)


def _pair(q):
    """(delta1, delta2) as floats; anything that is not a pair of real numbers is reported as (nan, nan) and is
    judged as such (failure class `nan`)."""
    try:
        d1, d2 = q
        return float(d1), float(d2)
    except (TypeError, ValueError):
        return math.nan, math.nan


# ------------------------------------------------------------------------------------------ judging
def _ncls(n, pm):
    if n == 0:
        return 'n=0'
    return 'visible-point-mass' if pm > VISIBLE else 'far-tail'


def _tol(ref):
    return ATOL + RTOL * abs(ref)


def judge_pair(site, d1, d2, stat, n, r1, r2, pm, ncls, failures, rep, ctx, value_tol=None):
    """Judges one reported pair.  Returns True iff both values were accepted (then, and only then, the stated
    consequences - sum identity, range, monotonicity - are reported on their own, with input class `any`: when a
    value is wrong they fail as a matter of course and would only multiply the signatures of one defect)."""
    def fail(cls, detail, icls):
        failures.append(Fail(f'{site}|{cls}|{icls}', f'{detail} | {ctx} n_obs={n}', rep))
    if stat != n:
        fail('observed-statistic', f'observed_statistic = {stat!r}, the observed catalog has {n} events', 'any')
    if math.isnan(d1) or math.isnan(d2):
        fail('nan', f'quantile is not a pair of numbers: ({d1}, {d2})', 'any')
        return False
    t1 = _tol(r1) if value_tol is None else value_tol
    t2 = _tol(r2) if value_tol is None else value_tol
    ok = True
    if abs(d1 - r1) > t1:
        ok = False
        fail('delta1-value', f'delta1 = {d1!r}, P(N >= n_obs) = {r1!r} (diff {d1 - r1:.3e}, P(N = n_obs) = {pm:.6e})', ncls)
    if abs(d2 - r2) > t2:
        ok = False
        fail('delta2-value', f'delta2 = {d2!r}, P(N <= n_obs) = {r2!r} (diff {d2 - r2:.3e}, P(N = n_obs) = {pm:.6e})', ncls)
    if not ok:
        return False
    if abs((d1 + d2) - (1.0 + pm)) > ID_ATOL:
        fail('sum-identity', f'delta1 + delta2 = {d1 + d2!r}, 1 + P(N = n_obs) = {1.0 + pm!r}', 'any')
    if not (0.0 <= d1 <= 1.0 and 0.0 <= d2 <= 1.0):
        fail('range', f'quantile = ({d1!r}, {d2!r}) leaves [0, 1]', 'any')
    return True


def run_law(case):
    kind = case['kind']
    site = SITES[kind]
    failures = []
    h = hashlib.sha1()
    counters = {}
    ns = [int(n) for n in case['ns']]
    cur = dict(rates=case['rates'], scale=case['scale'], variance=case['variance'])
    total = ref_counts.exact_total(cur['rates'], _plain_scale(cur['scale']))
    law = ref_counts.poisson_law(total) if kind == 'poisson' else ref_counts.nbd_law(total, cur['variance'])
    if abs(law.raw_total - 1.0) > 1e-6:      # self-check of the reference (closed formula vs ratio walk)
        raise AssertionError(f'reference law {law.name} has total mass {law.raw_total!r}')
    ref = law.tails(ns)
    ctx = (f'{kind} route={case["route"]} total={total!r}'
           + (f' variance={cur["variance"]!r}' if kind == 'nbd' else '')
           + (f' scale={cur["scale"]!r}' if cur['scale'] is not None else ''))
    evals = transitions = nontriv = 0
    sample_rows = []
    for n in ns:
        r1, r2, pm = ref[n]
        ncls = _ncls(n, pm)
        rep = dict(case, ns=[n])
        try:
            d1, d2, stat, fc_total = call_law(kind, cur, n)
        except Exception as e:
            failures.append(Fail(f'{site}|exception:{type(e).__name__}|{ncls}', f'{type(e).__name__}: {e} | {ctx} n_obs={n}', rep))
            transitions += 1
            continue
        evals += 1
        transitions += 1
        h.update(repr((n, d1, d2, fc_total)).encode())
        if pm > VISIBLE:
            nontriv += 1
        counters[f'pairs_{ncls}'] = counters.get(f'pairs_{ncls}', 0) + 1
        if abs(fc_total - total) > 1e-12 * total:
            # the count law itself is not the one of the stated total: attribute to the forecast, not to the tails
            failures.append(Fail(f'{site}|forecast-total|{case["route"]}',
                                 f'forecast.event_count = {fc_total!r}, exact total of the rates'
                                 f'{" times the scale" if cur["scale"] is not None else ""} = {total!r} | {ctx}', rep))
            ok = judge_pair(site, d1, d2, stat, n, r1, r2, pm, ncls, failures, rep, ctx, value_tol=math.inf)
        else:
            ok = judge_pair(site, d1, d2, stat, n, r1, r2, pm, ncls, failures, rep, ctx)
        if len(sample_rows) < 4 and pm > VISIBLE:
            sample_rows.append(dict(n_obs=n, delta=[d1, d2], reference=[r1, r2], point_mass=pm))
        # monotone along the mu grid (previous letter of the grid, same route and dispersion ratio)
        if case.get('prev') and ok:
            try:
                p1, p2, _, _ = call_law(kind, case['prev'], n)
            except Exception:
                continue        # judged in the case that owns that law
            transitions += 1
            h.update(repr((p1, p2)).encode())
            if d1 < p1 - MONO_SLACK or d2 > p2 + MONO_SLACK:
                failures.append(Fail(f'{site}|not-monotone-in-mean|any',
                                     f'(delta1, delta2) = ({p1!r}, {p2!r}) at the previous grid total '
                                     f'{ref_counts.exact_total(case["prev"]["rates"], _plain_scale(case["prev"]["scale"]))!r} -> '
                                     f'({d1!r}, {d2!r}) | {ctx} n_obs={n}', rep))
    return result(evals=evals, states=len(ns), transitions=transitions, nontrivial=nontriv, failures=failures,
                  digest=h.hexdigest(), counters=counters,
                  sets={'laws': [[kind, case['route'], repr(total), repr(cur['variance'])]]},
                  sample=dict(law=law.name, route=case['route'], support=[law.lo, law.hi], n_obs_grid=len(ns),
                              rows=sample_rows))


def run_catalog(case):
    from csep.core import catalog_evaluations
    site = SITES['catalog']
    failures = []
    h = hashlib.sha1()
    counters = {}
    evals = transitions = nontriv = states = 0
    rows = []
    for ms in case['msets']:
        pres = [('sorted', list(ms))]
        if list(ms)[::-1] != list(ms):
            pres.append(('reversed', list(ms)[::-1]))
        for n in case['ns']:
            states += 1
            r1, r2, pm = ref_counts.empirical_tails(ms, n)
            ncls = _ncls(n, pm)
            if pm > VISIBLE:
                nontriv += 1
            for pname, sizes in pres:
                rep = dict(kind='catalog', msets=[sizes], ns=[n], presentation='as-given')
                ctx = f'synthetic catalog sizes={sizes}'
                transitions += 1
                try:
                    fc = synthetic_forecast(sizes)
                    res = catalog_evaluations.number_test(fc, observed_catalog(n), verbose=False)
                except Exception as e:
                    failures.append(Fail(f'{site}|exception:{type(e).__name__}|{ncls}',
                                         f'{type(e).__name__}: {e} | {ctx} n_obs={n}', rep))
                    continue
                d1, d2 = _pair(res.quantile)
                stat = res.observed_statistic
                evals += 1
                h.update(repr((sizes, n, d1, d2)).encode())
                counters[f'pairs_{ncls}'] = counters.get(f'pairs_{ncls}', 0) + 1
                judge_pair(site, d1, d2, stat, n, r1, r2, pm, ncls, failures, rep, ctx, value_tol=1e-12)
                if len(rows) < 3 and pm > VISIBLE:
                    rows.append(dict(sizes=sizes, n_obs=n, delta=[d1, d2], reference=[r1, r2]))
    return result(evals=evals, states=states, transitions=transitions, nontrivial=nontriv, failures=failures,
                  digest=h.hexdigest(), counters=counters, sample=dict(catalog_n_test=rows))


def run_catalog_history(case):
    """Multi-step histories: the synthetic catalogs are thinned in place between two uses of the same forecast object; the
    N-test must always reflect the sizes the synthetic catalogs have when it is called."""
    from csep.core import catalog_evaluations
    site = SITES['catalog']
    failures = []
    h = hashlib.sha1()
    evals = transitions = nontriv = states = 0
    for sizes in case['msets']:
        after = [s_ // 2 for s_ in sizes]        # events alternate magnitude 5.5 / 6.5: 'magnitude >= 6.0' keeps s//2
        for first in case['firsts']:
            for n in case['ns']:
                states += 1
                rep = dict(kind='catalog_history', msets=[sizes], ns=[n], firsts=[first])
                fc = synthetic_forecast(sizes)
                try:
                    if first == 'number_test':
                        res = catalog_evaluations.number_test(fc, observed_catalog(n), verbose=False)
                        r1, r2, pm = ref_counts.empirical_tails(sizes, n)
                        d1, d2 = _pair(res.quantile)
                        judge_pair(site, d1, d2, res.observed_statistic, n, r1, r2, pm, _ncls(n, pm), failures, rep,
                                   f'first use, sizes={sizes}', value_tol=1e-12)
                    elif first == 'iterate':
                        _ = [c.event_count for c in fc]
                    elif first == 'get_event_counts':
                        fc.get_event_counts(verbose=False)
                    for c in fc.catalogs:
                        c.filter('magnitude >= 6.0')
                    res = catalog_evaluations.number_test(fc, observed_catalog(n), verbose=False)
                    transitions += 2
                    evals += 1
                except Exception as e:
                    failures.append(Fail(f'{site}|exception:{type(e).__name__}|after-history', f'{type(e).__name__}: {e} sizes={sizes} first={first}', rep))
                    continue
                r1, r2, pm = ref_counts.empirical_tails(after, n)
                d1, d2 = _pair(res.quantile)
                h.update(repr((sizes, first, n, d1, d2)).encode())
                if pm > VISIBLE:
                    nontriv += 1
                before = len(failures)
                judge_pair(site, d1, d2, res.observed_statistic, n, r1, r2, pm, _ncls(n, pm), failures, rep,
                           f'history: {first}, then synthetic catalogs thinned in place from sizes {sizes} to {after}', value_tol=1e-12)
                for f in failures[before:]:
                    f['signature'] = f['signature'].rsplit('|', 1)[0] + '|after-in-place-thinning'
                if sorted(float(x) for x in res.test_distribution) != sorted(float(x) for x in after):
                    failures.append(Fail(f'{site}|test-distribution-not-current-sizes|after-in-place-thinning',
                                         f'test_distribution {list(res.test_distribution)} but the synthetic catalogs now hold {after} events (history: {first}; sizes before {sizes})', rep))
    return result(evals=evals, states=states, transitions=transitions, nontrivial=nontriv, failures=failures,
                  digest=h.hexdigest(), sample=dict(history=case['firsts'], sizes=case['msets'][0]))


def run_case(case):
    if case['kind'] == 'catalog_history':
        return run_catalog_history(case)
    if case['kind'] == 'catalog':
        if case.get('presentation') == 'as-given':
            # replay of one presentation exactly as stored (no re-sorting)
            return _run_catalog_as_given(case)
        return run_catalog(case)
    return run_law(case)


def _run_catalog_as_given(case):
    from csep.core import catalog_evaluations
    site = SITES['catalog']
    failures = []
    sizes = case['msets'][0]
    n = case['ns'][0]
    r1, r2, pm = ref_counts.empirical_tails(sizes, n)
    ncls = _ncls(n, pm)
    ctx = f'synthetic catalog sizes={sizes}'
    try:
        res = catalog_evaluations.number_test(synthetic_forecast(sizes), observed_catalog(n), verbose=False)
    except Exception as e:
        failures.append(Fail(f'{site}|exception:{type(e).__name__}|{ncls}', f'{type(e).__name__}: {e} | {ctx} n_obs={n}', case))
        res = None
    dig = 'EXC'
    if res is not None:
        d1, d2 = _pair(res.quantile)
        judge_pair(site, d1, d2, res.observed_statistic, n, r1, r2, pm, ncls, failures, case, ctx, value_tol=1e-12)
        dig = repr((d1, d2))
    return result(evals=1, states=1, transitions=1, nontrivial=1 if pm > VISIBLE else 0, failures=failures,
                  digest=hashlib.sha1(dig.encode()).hexdigest(), sample=case)


def finish(agg, tier):
    return dict(evidence=dict(bounds=dict(
        tolerance=dict(atol=ATOL, rtol=RTOL, identity_atol=ID_ATOL, monotone_slack=MONO_SLACK),
        mu_grid=(MUS_Q if tier == 'quick' else MUS_T),
        n_obs_fixed=N_FIXED, variance_factors=(FACTORS_Q if tier == 'quick' else FACTORS_Q + FACTORS_EXTRA + [ABS_VARIANCE]),
        distinct_laws=len(agg['sets'].get('laws', ())),
        catalog_sizes_alphabet=([0, 1, 2, 3] if tier == 'quick' else [0, 1, 2, 3, 4]),
        catalog_multiset_max_size=(5 if tier == 'quick' else 7))))
