"""Toy property used only by the explorer self-test: a bounded counter must stay within [0, 3]."""
import os
from mc.engine import Fail, result
from mc import space

ID = 'TOY'
RULE = 'all operation sequences of length <= 4 over {inc, dec, reset} on a saturating counter'
ASSUMPTIONS = []


class Counter:
    def __init__(self):
        self.v = 0

    def inc(self):
        if self.v < 3 or (os.environ.get('TOY_BUG') == '1' and self.v == 3):
            self.v += 1

    def dec(self):
        if self.v > 0:
            self.v -= 1

    def reset(self):
        self.v = 0


def cases(tier, seed):
    for s in space.sequences(['inc', 'dec', 'reset'], 0, 4):
        yield dict(ops=list(s))


def run_case(case):
    c = Counter()
    ref = 0
    fails = []
    for i, op in enumerate(case['ops']):
        getattr(c, op)()
        ref = {'inc': min(ref + 1, 3), 'dec': max(ref - 1, 0), 'reset': 0}[op]
        if c.v != ref:
            fails.append(Fail('toy.Counter|value|overflow', f'after {case["ops"][:i + 1]} value {c.v} expected {ref}',
                              dict(ops=case['ops'][:i + 1])))
            break
    return result(evals=len(case['ops']), states=1, transitions=len(case['ops']), nontrivial=1, failures=fails,
                  digest=str(c.v), sample=case)
