"""C12 Catalog-forecast files decode to exactly the catalogs they encode.

Bounded exhaustive enumeration of catalog-forecast CSV files, every file decoded by the REAL loaders through three
entry points and compared with the writer's own event lists (reference codec below, plain Python).

A *file spec* is a list of id groups ``[[catalog_id, n_events], ...]`` in file order (``n_events == 0`` = one placeholder
row ``,,,,,<id>,``); the number of catalogs the file encodes is ``last id + 1`` (the final id is always present).
Event values are a pure function of the event's running index in the (un-swapped) file, so that every event in a file
is different in every field and any mis-grouping, loss, duplication or reordering is visible.
"""
import datetime
import hashlib
import itertools
import linecache
import os
import sys
from fractions import Fraction

from mc import fixtures
from mc import space
from mc.engine import Fail, result

ID = 'C12'
RULE = ('ALL catalog-forecast files with n <= 5 catalogs (the property bound) of 0..2 events each and n <= 3 catalogs of '
        '0..3 events, every placeholder-row/omitted choice for every empty catalog except the last (always written), '
        'x header on/off x time strings with/without fractional seconds x event id present/blank; one step beyond the '
        'bound: ALL n = 6 files of 0..2 events (quick: header on/off only; thorough: all eight variants) '
        '[thorough adds: n <= 6 of 0..3 events and n = 7 of 0..2 events, all variants]; plus structured long-gap '
        'files (1..3 written groups, every gap in {0,1,2,3,10,100} before each group, group = placeholder | 1 | 2 '
        'events; two opposite variants: no header/fraction/ids and header/no fraction/blank ids) and 100/300-catalog '
        'files [thorough +1000] with periodic and quadratic size patterns under three empty-catalog policies (all '
        'eight variants); the quick tier appends one seed-selected complete block (gaps {4,5,7,50} | n = 4 of '
        '0..3 events | 1000-catalog files), the thorough tier has all of them. Each file is '
        'decoded by CSEPCatalog.load_ascii_catalogs, csep.load_stochastic_event_sets and iteration of '
        'csep.load_catalog_forecast (+ n_cat) and compared with the list of catalogs that was written (count, ids '
        '0..n-1, events in file order, six fields). Negative space: EVERY file obtained from one of the above by '
        'swapping two adjacent id groups (ids decrease exactly once; for the 100+-catalog files the first, middle and '
        'last adjacent pair) must be rejected (an exception) by all three entry '
        'points. A file is distinct by construction (enumeration without repetition; a swapped file determines its '
        'source and swap position). A positive file is non-trivial iff it has an empty catalog (placeholder or '
        'omitted) or a catalog with >= 2 events; every negative file is non-trivial.')
ASSUMPTIONS = [
    'event values are not enumerated (the decoder branches only on emptiness of fields and on catalog ids): each event '
    'gets values that are a function of its running index, distinct in every field within a file',
    'times are whole seconds or have fractions k/8 s, for which the float path int(1000.0*total_seconds()) is exact '
    '(verified per time by exact rational arithmetic in the reference); the float-truncation defect of '
    'datetime_to_utc_epoch belongs to C15 and is kept out of this space',
    '"rejected" = the entry point raises an exception before its iteration completes (the property text does not name '
    'the exception type; the types seen are recorded in the evidence: only ValueError on the unchanged tree)',
    'n = 0 (a file without any row) is not covered by the property text (no final id exists); it is observed and '
    'counted as ambiguous_skipped, not judged',
    '"random forecasts with hundreds of catalogs / long gaps" are replaced by deterministic structured families',
    'decoder state coverage is a measurement (sys.settrace on the generator frame and a derivation from the line '
    'sequence, cross-checked); it never decides a verdict',
]

T0_MS = 1262304000000          # 2010-01-01T00:00:00
STEP_MS = 61000                # distinct second (and minute) per event
FRACS_MS = [0, 500, 250, 125, 750, 375, 625, 875]   # k/8 s: exact in binary
HEADER = 'lon,lat,mag,time_string,depth,catalog_id,event_id'
VARIANTS = [(h, f, b) for h in (False, True) for f in (True, False) for b in (False, True)]   # (header, fraction, blank)
TWO_VARIANTS = [(False, True, False), (True, True, False)]
SITES = {'ascii': 'CSEPCatalog.load_ascii_catalogs',
         'ses': 'csep.load_stochastic_event_sets',
         'forecast': 'csep.load_catalog_forecast'}
ENTRIES = ['ascii', 'ses', 'forecast']
FIELDS = ['event_id', 'origin_time', 'latitude', 'longitude', 'depth', 'magnitude']
GAPS = [0, 1, 2, 3, 10, 100]
GAPS_EXTRA = [4, 5, 7, 50]
BIG_CYCLES = [[1], [0], [0, 1], [1, 0], [2, 0, 0], [0, 0, 0, 1], [0, 1, 2], [1, 2], 'sq3', 'mix4']
POLICIES = ['P', 'O', 'A']     # empty catalogs: all placeholder rows | all omitted | alternating


# ====================================================================== reference codec (plain Python, no csep)
def event_values(k, fraction):
    """The k-th event of a file: (id, ms, lat, lon, depth, mag); every field differs between events of one file."""
    ms = T0_MS + STEP_MS * k + (FRACS_MS[k % 8] if fraction else 0)
    if k % 5 == 3:
        ms = -ms            # every fifth event lies before 1970 (mirrored instant, with its fraction)
    if k == 2:
        ms = 0              # the third event of every file is AT the epoch (origin time 0 is a time like any other)
    lat = (3000 + 13 * (k % 4000)) / 100
    lon = (-12000 + 37 * (k % 4000)) / 1000
    depth = (10 + 55 * (k % 4000)) / 10
    mag = (4000 + 7 * (k % 4000)) / 1000
    if k % 7 == 4:
        # values whose shortest decimal spelling uses exponent notation (e.g. 5e-05), negative zero-ish and integral values
        lat, lon, depth = (-3 - k % 50) * 1e-07, (5 + k % 50) * 1e-05, (1 + k % 9) * 1e-05
    elif k % 7 == 6:
        lat, lon, depth, mag = float(-(k % 80)), float(k % 170), float(k % 600), float(3 + k % 6)
    elif k % 7 == 1:
        # longitudes in the 0..360 convention, a negative depth and a negative magnitude (valid values, read back as written)
        lon, depth, mag = [180.0, 181.5, 200.0, 359.75, 270.125][(k // 7) % 5] + (k // 35) * 0.001, -1.5 - (k // 7) * 0.25, -0.5 - (k // 7) * 0.01
    if k == 2:
        lat = lon = depth = mag = 0.0     # ... and all of its numeric fields are zero (a row of zeros is an event, not a placeholder)
    eid = 'ev%d' % k if k % 7 != 3 else ('ev %d ' % k if k % 2 else ' ev%d' % k)      # some ids end or start with a blank
    return (eid, ms, lat, lon, depth, mag)


def float_path_is_exact(ms):
    """True iff the seconds value ms/1000 is a float and 1000*that float is the integer ms, both without rounding:
    then int(1000.0 * timedelta.total_seconds()) == ms whatever the rounding mode (reference check of the time
    alphabet; exact rationals only)."""
    sec = Fraction(ms, 1000)
    f = float(sec)                       # correctly rounded
    return Fraction(f) == sec and abs(ms) < 2 ** 53 and Fraction(f) * 1000 == ms


def time_string(ms, fraction):
    dt = datetime.datetime(1970, 1, 1) + datetime.timedelta(milliseconds=ms)
    s = '%04d-%02d-%02dT%02d:%02d:%02d' % (dt.year, dt.month, dt.day, dt.hour, dt.minute, dt.second)
    if _STYLE[0] == 'unpadded':
        # month, day and hour without leading zeros: spellings strptime (hence the decoder) accepts for %m, %d, %H
        s = '%04d-%d-%dT%d:%02d:%02d' % (dt.year, dt.month, dt.day, dt.hour, dt.minute, dt.second)
    if fraction:
        # every spelling strptime('%f') accepts: 6 digits, 3 digits, shortest (e.g. '.5', '.25', '.0'); chosen per event
        style = (ms // 1000) % 3
        if style == 0:
            s += '.%06d' % dt.microsecond
        elif style == 1:
            s += '.%03d' % (dt.microsecond // 1000)
        else:
            s += '.' + (('%06d' % dt.microsecond).rstrip('0') or '0')
    else:
        assert dt.microsecond == 0
    return s


_STYLE = ['lf']        # 'unpadded': time fields without leading zeros; row style of the files of the current case: 'lf' | 'crlf' (what csv.writer and write_ascii produce) | 'quoted'


def build_file(groups, header, fraction, blank, swap=None):
    """-> (text, expected catalogs, line meta [(cid, is_placeholder)], n_catalogs).

    groups are in increasing id order; event indices are assigned in that order; `swap=j` then exchanges the written
    order of groups j and j+1 (the negative space)."""
    assert all(groups[i][0] < groups[i + 1][0] for i in range(len(groups) - 1)) and groups[0][0] >= 0
    n = groups[-1][0] + 1
    expected = [[] for _ in range(n)]
    blocks = []
    k = 0
    for cid, nev in groups:
        rows, meta = [], []
        if nev == 0:
            rows.append(',,,,,%d,' % cid)
            meta.append((cid, True))
        for _ in range(nev):
            eid, ms, lat, lon, depth, mag = event_values(k, fraction)
            k += 1
            assert float_path_is_exact(ms), ms
            q = '"%s"' if _STYLE[0] == 'quoted' else '%s'
            rows.append('%r,%r,%r,%s,%r,%d,%s' % (lon, lat, mag, q % time_string(ms, fraction), depth, cid,
                                                  '' if blank else q % eid))
            meta.append((cid, False))
            expected[cid].append(('' if blank else eid, ms, lat, lon, depth, mag))
        blocks.append((rows, meta))
    if swap is not None:
        blocks[swap], blocks[swap + 1] = blocks[swap + 1], blocks[swap]
    lines = [HEADER] if header else []
    meta = []
    for rows, m in blocks:
        lines.extend(rows)
        meta.extend(m)
    eol = '\r\n' if _STYLE[0] == 'crlf' else '\n'
    return eol.join(lines) + eol, expected, meta, n


def pending_class(p):
    return '0' if p == 0 else '1' if p == 1 else '2+'


def relation(prev, cid):
    if prev is None:
        return 'first0' if cid == 0 else 'firstgap'
    if cid == prev:
        return 'same'
    if cid == prev + 1:
        return '+1'
    if cid > prev + 1:
        return 'gap'
    return 'decrease'


def derive_transitions(meta, header):
    """(state, input) classes of a line-by-line grouping decoder over this line sequence:
    (relation of the line's id to the id being accumulated, pending events class, line kind); processing stops at a
    decrease; end of file is a pseudo input."""
    seq = [('header', '0', 'header')] if header else []
    prev, pending = None, 0
    for cid, ph in meta:
        rel = relation(prev, cid)
        seq.append((rel, pending_class(pending), 'placeholder' if ph else 'event'))
        if rel == 'decrease':
            return seq
        add = 0 if ph else 1
        pending = pending + add if rel == 'same' or rel == 'first0' else add
        prev = cid
    seq.append(('eof', pending_class(pending), '-'))
    return seq


# ====================================================================== spaces
def shape_groups(shape):
    """shape: one letter per catalog, 'P' empty with placeholder row, 'O' empty and omitted, '1'..'3' events."""
    groups = []
    for cid, ch in enumerate(shape):
        if ch == 'O':
            continue
        groups.append([cid, 0 if ch == 'P' else int(ch)])
    return groups


def shapes(n, emax):
    letters = ['P', 'O'] + [str(e) for e in range(1, emax + 1)]
    last = ['P'] + [str(e) for e in range(1, emax + 1)]
    for head in itertools.product(letters, repeat=n - 1):
        for tail in last:
            yield ''.join(head) + tail


def shapes_with_3(n):
    """shapes over 0..3 events that contain at least one 3-event catalog (complement of the 0..2 space)."""
    for s in shapes(n, 3):
        if '3' in s:
            yield s


def gap_specs(k, gaps):
    """k written groups; before each a gap (number of omitted ids) from `gaps`; group = placeholder | 1 | 2 events."""
    for gs in itertools.product(gaps, repeat=k):
        for ts in itertools.product([0, 1, 2], repeat=k):
            cid = -1
            groups = []
            for g, t in zip(gs, ts):
                cid += g + 1
                groups.append([cid, t])
            yield groups


def big_groups(n, cyc, policy):
    groups = []
    n_empty = 0
    for i in range(n):
        if cyc == 'sq3':
            size = (i * i) % 3
        elif cyc == 'mix4':
            size = (7 * i + i // 3) % 4
        else:
            size = cyc[i % len(cyc)]
        if size == 0:
            n_empty += 1
            written = policy == 'P' or (policy == 'A' and n_empty % 2 == 1) or i == n - 1
            if not written:
                continue
        groups.append([i, size])
    return groups


def _chunks(it, size):
    buf = []
    for x in it:
        buf.append(x)
        if len(buf) == size:
            yield buf
            buf = []
    if buf:
        yield buf


def cases(tier, seed):
    yield from space.with_time_zones(_cases(tier, seed), 12)


def _cases(tier, seed):
    # ---- core: every file with n <= 5 (the property bound), 0..2 events, all eight variants
    yield dict(kind='n0')
    for n in range(1, 6):
        for chunk in _chunks(shapes(n, 2), 12):
            yield dict(kind='enum', n=n, shapes=chunk, variants='all', trace=True)
    # ---- the same files with CRLF row endings (what csv.writer and CSEPCatalog.write_ascii produce) and with quoted text fields
    for style in ('crlf', 'quoted', 'unpadded'):
        for n in range(1, 5):
            for chunk in _chunks(shapes(n, 2), 24):
                yield dict(kind='enum', n=n, shapes=chunk, variants='all', trace=False, style=style)
    # ---- one step beyond the bound: n = 6 (quick: header off/on with fractional times and ids; thorough: all variants)
    for chunk in _chunks(shapes(6, 2), 24 if tier == 'quick' else 12):
        yield dict(kind='enum', n=6, shapes=chunk, variants='two' if tier == 'quick' else 'all', trace=True)
    # ---- a third event per catalog (pending class "2+" on a same-id line)
    for n in range(1, 4):
        for chunk in _chunks(shapes_with_3(n), 12):
            yield dict(kind='enum', n=n, shapes=chunk, variants='all', trace=True)
    # ---- structured long gaps
    for k in (1, 2, 3):
        for chunk in _chunks(gap_specs(k, GAPS), 36 if k < 3 else 24):
            yield dict(kind='gaps', specs=chunk)
    # ---- hundreds of catalogs
    for n in (100, 300):
        for cyc in BIG_CYCLES:
            for pol in POLICIES:
                yield dict(kind='big', n=n, cyc=cyc, policy=pol)
    # ---- additional complete blocks (quick: the one selected by the seed; thorough: all of them)
    blocks = [seed % 3] if tier == 'quick' else [0, 1, 2]
    if 0 in blocks:
        for k in (1, 2):
            for chunk in _chunks((g for g in gap_specs(k, GAPS + GAPS_EXTRA)
                                  if any(x in GAPS_EXTRA for x in _gaps_of(g))), 36):
                yield dict(kind='gaps', specs=chunk)
    if 1 in blocks:
        for chunk in _chunks(shapes_with_3(4), 12):
            yield dict(kind='enum', n=4, shapes=chunk, variants='all', trace=False)
    if 2 in blocks:
        for pol in POLICIES:
            yield dict(kind='big', n=1000, cyc='mix4', policy=pol)
    if tier == 'thorough':
        for n in (5, 6):
            for chunk in _chunks(shapes_with_3(n), 12):
                yield dict(kind='enum', n=n, shapes=chunk, variants='all', trace=False)
        for chunk in _chunks(shapes(7, 2), 12):
            yield dict(kind='enum', n=7, shapes=chunk, variants='all', trace=True)
        for cyc in BIG_CYCLES:
            if cyc == 'mix4':
                continue
            for pol in POLICIES:
                yield dict(kind='big', n=1000, cyc=cyc, policy=pol)


def _gaps_of(groups):
    prev = -1
    out = []
    for cid, _ in groups:
        out.append(cid - prev - 1)
        prev = cid
    return out


# ====================================================================== real implementation
_COUNTER = [0]


def _write(text):
    _COUNTER[0] += 1
    path = os.path.join(fixtures.workdir(), 'c12-%d.csv' % _COUNTER[0])
    with open(path, 'w', newline='') as fh:
        fh.write(text)
    return path


def load(entry, path):
    """-> ([(catalog_id, events)] obtained (before the exception, if any), n_cat or None, exception or None)."""
    import csep
    from csep.core.catalogs import CSEPCatalog
    got = []
    n_cat = None
    try:
        if entry == 'ascii':
            for c in CSEPCatalog.load_ascii_catalogs(path):
                got.append(c)
        elif entry == 'ses':
            for c in csep.load_stochastic_event_sets(path):
                got.append(c)
        else:
            fc = csep.load_catalog_forecast(path)
            for c in fc:
                got.append(c)
            n_cat = fc.n_cat
    except Exception as e:                # the library's exception is an observation
        return [(c.catalog_id, fixtures.events_of(c)) for c in got], None, e
    return [(c.catalog_id, fixtures.events_of(c)) for c in got], n_cat, None


def traced_transitions(path):
    """Runs CSEPCatalog.load_ascii_catalogs under sys.settrace and reads the decoder state from the generator frame:
    per CSV line (prev_id and len(events) before the line, catalog_id and `empty` after parsing, yields/raise while
    processing it); the final `yield cat` is attributed to the end-of-file pseudo input. Measurement only."""
    from csep.core.catalogs import CSEPCatalog
    code = CSEPCatalog.load_ascii_catalogs.__func__.__code__
    recs = []
    cur = [None]
    eof = dict(yields=0, pending=None)

    def local(frame, event, arg):
        loc = frame.f_locals
        line = loc.get('line')
        if line is not None and (cur[0] is None or cur[0]['obj'] is not line):
            cur[0] = dict(obj=line, prev=loc.get('prev_id'), pending=len(loc.get('events') or ()), cid=None,
                          empty=None, yields=[], raised=None, header=(loc.get('prev_id') is None and 'catalog_id' not in loc))
            recs.append(cur[0])
        c = cur[0]
        if c is not None:
            if 'catalog_id' in loc:
                c['cid'] = loc['catalog_id']
                c['header'] = False
            if 'empty' in loc:
                c['empty'] = loc['empty']
            if event == 'return' and arg is not None:
                src = linecache.getline(code.co_filename, frame.f_lineno).strip()
                if src == 'yield cat':
                    eof['yields'] += 1
                    eof['pending'] = len(loc.get('events') or ())
                else:
                    c['yields'].append(frame.f_lineno - code.co_firstlineno)
            elif event == 'exception':
                c['raised'] = arg[0].__name__
        return local

    def glob(frame, event, arg):
        if event == 'call' and frame.f_code is code:
            return local
        return None

    old = sys.gettrace()
    sys.settrace(glob)
    try:
        try:
            for _ in CSEPCatalog.load_ascii_catalogs(path):
                pass
        except Exception:
            pass
    finally:
        sys.settrace(old)
    out = []
    for r in recs:
        if r['header']:
            out.append((('header', '0', 'header'), ()))
            continue
        ys = sorted(set(r['yields']))
        branch = tuple((y, '1' if r['yields'].count(y) == 1 else '2+') for y in ys)
        if r['raised']:
            branch = branch + (('raise', r['raised']),)
        out.append(((relation(r['prev'], r['cid']), pending_class(r['pending']),
                     'placeholder' if r['empty'] else 'event'), branch))
    if eof['yields']:
        out.append((('eof', pending_class(eof['pending']), '-'), (('final-yield', '1' if eof['yields'] == 1 else '2+'),)))
    return out


# ====================================================================== judging
def positive_class(groups):
    gaps = _gaps_of(groups)
    if gaps[0] > 0:
        return 'leading-gap'
    if any(g > 0 for g in gaps):
        return 'interior-gap'
    if any(nev == 0 for _, nev in groups):
        return 'placeholder-rows'
    return 'all-catalogs-nonempty'


def compare(entry, got, n_cat, expected):
    """-> None or (failure class, detail)."""
    n = len(expected)
    ids = [cid for cid, _ in got]
    if len(got) != n:
        return 'catalog-count', 'loaded %d catalogs (ids %s), file encodes %d' % (len(got), ids[:12], n)
    if any(not isinstance(cid, int) and not hasattr(cid, '__index__') for cid in ids) or \
            [int(c) for c in ids] != list(range(n)):
        return 'catalog-ids', 'catalog ids %s, expected 0..%d' % (ids[:12], n - 1)
    for cid, (want, (_, have)) in enumerate(zip(expected, got)):
        have = [tuple(e) for e in have]
        if have == want:
            continue
        all_want = sorted(e for c in expected for e in c)
        all_have = sorted(tuple(e) for _, c in got for e in c)
        if all_have == all_want:
            return 'events-misgrouped', 'catalog %d holds %s, written %s' % (cid, have[:4], want[:4])
        if len(have) != len(want):
            return 'events-lost-or-added', 'catalog %d holds %d events %s, written %d %s' % (
                cid, len(have), have[:4], len(want), want[:4])
        for a, b in zip(have, want):
            for name, x, y in zip(FIELDS, a, b):
                if x != y:
                    return 'field:' + name, 'catalog %d: %s read back as %r, written %r (event %s)' % (cid, name, x, y, b)
    if entry == 'forecast' and n_cat != n:
        return 'n_cat-wrong', 'n_cat = %r after a complete pass, file encodes %d catalogs' % (n_cat, n)
    return None


def judge_file(groups, header, fraction, blank, swap, st, trace=False, n_key=None, entries=ENTRIES):
    """Writes one file, runs every entry point, judges, records coverage. st = mutable per-case accumulator."""
    text, expected, meta, n = build_file(groups, header, fraction, blank, swap)
    path = _write(text)
    single = dict(kind='single', groups=[list(g) for g in groups], header=header, fraction=fraction, blank=blank,
                  swap=swap, style=_STYLE[0])
    var = 'header=%s,fraction=%s,blank_id=%s' % (header, fraction, blank)
    st['states'] += 1
    st['counters']['times_verified_exact_by_reference'] += sum(nev for _, nev in groups)
    try:
        if swap is None:
            st['counters']['files_positive'] += 1
            cls = positive_class(groups)
            if any(nev == 0 for _, nev in groups) or any(g > 0 for g in _gaps_of(groups)) or \
                    any(nev >= 2 for _, nev in groups):
                st['nontrivial'] += 1
            direct = None        # failure class of the decoder called directly on this file
            for entry in entries:
                got, n_cat, exc = load(entry, path)
                st['evals'] += 1
                st['h'].update(repr((groups, var, entry, got, n_cat, type(exc).__name__ if exc else None)).encode())
                if exc is not None:
                    bad = ('exception:' + type(exc).__name__, '%s: %s on a valid file' % (type(exc).__name__, exc))
                else:
                    bad = compare(entry, got, n_cat, expected)
                if entry == 'ascii':
                    direct = bad and bad[0]
                elif bad and bad[0] == direct:
                    # the wrappers share the decoder: the same failure class on the same file is a consequence of
                    # the failure already reported for the direct call, not a second finding
                    st['counters']['wrapper_failures_implied_by_decoder_failure'] += 1
                    continue
                if bad:
                    st['failures'].append(Fail('%s|%s|%s' % (SITES[entry], bad[0], cls),
                                               '%s; groups [id,n_events]=%s %s; file=%r' % (
                                                   bad[1], groups[:12], var, text[:400]),
                                               dict(single, entry=entry)))
        else:
            st['counters']['files_negative'] += 1
            st['nontrivial'] += 1
            cls = 'decrease-after-first-group' if swap == 0 else 'decrease-later'
            direct = None
            for entry in entries:
                got, n_cat, exc = load(entry, path)
                st['evals'] += 1
                st['h'].update(repr((groups, var, swap, entry, len(got), type(exc).__name__ if exc else None)).encode())
                if exc is None and entry == 'ascii':
                    direct = 'accepted'
                elif exc is None and direct == 'accepted':
                    st['counters']['wrapper_failures_implied_by_decoder_failure'] += 1
                    continue
                if exc is None:
                    st['failures'].append(Fail('%s|accepted-decreasing-ids|%s' % (SITES[entry], cls),
                                               'no exception: %d catalogs (ids %s) loaded from a file whose ids decrease; '
                                               'written id sequence %s %s; file=%r' % (
                                                   len(got), [c for c, _ in got][:12],
                                                   [c for c, _ in meta][:16], var, text[:400]),
                                               dict(single, entry=entry)))
                else:
                    st['exc_types'].add(type(exc).__name__)
                    key = 'negative_rejected_ValueError' if isinstance(exc, ValueError) else 'negative_rejected_other_exception'
                    st['counters'][key] += 1
        # ---- coverage (measured; never decides)
        seq = derive_transitions(meta, header)
        key = 'structured' if n_key is None else 'n%02d' % n_key
        if n_key is None:
            st['sets'].setdefault('structured_gap_sizes', set()).update(_gaps_of(groups))
            st['sets'].setdefault('structured_n_catalogs', set()).add(n)
        st['sets'].setdefault('classes_' + key, set()).update(seq)
        st['sets'].setdefault('pairs_' + key, set()).update(zip(seq, seq[1:]))
        if trace:
            tr = traced_transitions(path)
            st['counters']['traced_files'] += 1
            st['counters']['traced_decoder_steps'] += len(tr)
            if [t[0] for t in tr] != seq:
                st['counters']['trace_vs_derivation_mismatch'] += 1
                st['sets'].setdefault('trace_mismatch_examples', set()).add(repr((groups, header, swap))[:200])
            st['sets'].setdefault('traced_' + key, set()).update(tr)
            st['sets'].setdefault('tracedpairs_' + key, set()).update(zip([t[0] for t in tr], [t[0] for t in tr][1:]))
    finally:
        os.remove(path)
    return n


def new_state():
    return dict(evals=0, states=0, nontrivial=0, failures=[], h=hashlib.sha1(), sets={}, exc_types=set(),
                counters=dict(files_positive=0, files_negative=0, negative_rejected_ValueError=0,
                              negative_rejected_other_exception=0, traced_files=0, traced_decoder_steps=0,
                              trace_vs_derivation_mismatch=0, times_verified_exact_by_reference=0,
                              ambiguous_skipped=0, wrapper_failures_implied_by_decoder_failure=0))


def run_file_family(groups, st, variants, trace, n_key, swaps='all'):
    for vi, (header, fraction, blank) in enumerate(variants):
        tr = trace and fraction and not blank            # traced subset: header off/on of one value variant
        judge_file(groups, header, fraction, blank, None, st, trace=tr, n_key=n_key)
        js = range(len(groups) - 1) if swaps == 'all' else swaps
        for j in js:
            judge_file(groups, header, fraction, blank, j, st, trace=tr, n_key=n_key)


def run_case(case):
    st = new_state()
    kind = case['kind']
    _STYLE[0] = case.get('style', 'lf')
    sample = None
    if kind == 'n0':
        # outside the property text: observed, not judged
        path = _write('')
        try:
            got, n_cat, exc = load('ascii', path)
        finally:
            os.remove(path)
        st['h'].update(repr((got, type(exc).__name__ if exc else None)).encode())
        st['counters']['ambiguous_skipped'] += 1
        sample = dict(empty_file_observed=[list(map(str, g)) for g in got])
    elif kind == 'enum':
        for shape in case['shapes']:
            run_file_family(shape_groups(shape), st, VARIANTS if case.get('variants', 'all') == 'all' else TWO_VARIANTS,
                            case.get('trace', False), case['n'])
        sample = dict(shape=case['shapes'][0], groups=shape_groups(case['shapes'][0]),
                      file=build_file(shape_groups(case['shapes'][0]), True, True, False)[0])
    elif kind == 'gaps':
        for groups in case['specs']:
            run_file_family(groups, st, VARIANTS[:1] + VARIANTS[7:], False, None)
        sample = dict(groups=case['specs'][-1])
    elif kind == 'big':
        groups = big_groups(case['n'], case['cyc'], case['policy'])
        m = len(groups)
        swaps = sorted(set([0, (m - 2) // 2, m - 2])) if m >= 2 else []
        run_file_family(groups, st, VARIANTS, False, None, swaps=swaps)
        sample = dict(n=case['n'], cyc=case['cyc'], policy=case['policy'], written_groups=m, first_groups=groups[:8])
    elif kind == 'single':
        entries = [case['entry']] if case.get('entry') else ENTRIES
        judge_file([list(g) for g in case['groups']], case['header'], case['fraction'], case['blank'], case['swap'],
                   st, entries=entries)
        sample = case
    else:
        raise ValueError(kind)
    sets = {k: sorted(v, key=repr) for k, v in st['sets'].items()}
    sets['negative_exception_types'] = sorted(st['exc_types'])
    return result(evals=st['evals'], states=st['states'], transitions=st['evals'], nontrivial=st['nontrivial'],
                  failures=st['failures'], digest=st['h'].hexdigest(), counters=st['counters'], sets=sets,
                  sample=sample)


# ====================================================================== aggregated coverage evidence
def _by_n(sets, prefix):
    out = {}
    for name, vals in sets.items():
        if name.startswith(prefix + '_n'):
            out[int(name[len(prefix) + 2:])] = set(vals)
    return out


def _growth(by_n):
    cum = set()
    new = {}
    for n in sorted(by_n):
        new[n] = by_n[n] - cum
        cum |= by_n[n]
    return new, cum


def _fmt(x):
    return repr(x).replace("'", '')


def finish(agg, tier):
    sets = agg['sets']
    ev = {}
    sat = {}
    for label, prefix in (('classes', 'classes'), ('pairs', 'pairs'), ('traced_classes_with_branch', 'traced'),
                          ('traced_pairs', 'tracedpairs')):
        by_n = _by_n(sets, prefix)
        new, cum = _growth(by_n)
        sat[label] = dict(total_distinct=len(cum),
                          visited_by_files_of_n={str(n): len(by_n[n]) for n in sorted(by_n)},
                          new_at_n={str(n): len(new[n]) for n in sorted(new)},
                          new_at_n5_over_n_le_4=sorted(_fmt(x) for x in new.get(5, ())),
                          new_at_n6_over_n_le_5=sorted(_fmt(x) for x in new.get(6, ())),
                          saturated_from_n=(max([n for n in new if new[n]] or [0])))
        if 7 in new:
            sat[label]['new_at_n7_over_n_le_6'] = sorted(_fmt(x) for x in new[7])
        if label in ('classes', 'pairs'):
            extra = set(sets.get(prefix + '_structured', ())) - cum
            sat[label]['new_in_structured_families_over_enumeration'] = sorted(_fmt(x) for x in extra)
    _, cum = _growth(_by_n(sets, 'classes'))
    ev['decoder_transition_classes'] = sorted(_fmt(x) for x in cum)
    _, cumt = _growth(_by_n(sets, 'traced'))
    ev['decoder_transition_classes_traced_with_branch'] = sorted(_fmt(x) for x in cumt)
    ev['decoder_state_coverage'] = sat
    ev['saturation'] = dict(
        n5_adds_no_transition_class_over_n4=(sat['classes']['new_at_n'].get('5') == 0),
        n5_adds_no_traced_class_over_n4=(sat['traced_classes_with_branch']['new_at_n'].get('5') == 0),
        n6_adds_no_transition_pair_over_n5=(sat['pairs']['new_at_n'].get('6') == 0),
        n6_adds_no_traced_pair_over_n5=(sat['traced_pairs']['new_at_n'].get('6') == 0),
        trace_equals_line_derivation=(agg['counters'].get('trace_vs_derivation_mismatch', 0) == 0),
        note='classes = (relation of line id to accumulated id, pending events, line kind); pairs = consecutive '
             'classes; measured on the real generator frame for the traced subset and derived from the line sequence '
             'for every file. Classes that no file of the property\'s grammar can reach (not explored): a same-id line '
             'with 0 pending events and any same-id placeholder line (a placeholder row for a catalog that also has '
             'events / a repeated placeholder)')
    ev['negative_exception_types'] = sorted(sets.get('negative_exception_types', ()))
    ev['ambiguous_skipped'] = agg['counters'].get('ambiguous_skipped', 0)
    ev['bounds'] = dict(
        n_catalogs_all_files_all_variants=5 if tier == 'quick' else 7,
        n_catalogs_all_files_header_variants=6 if tier == 'quick' else 7,
        events_per_catalog='0..2 (n<=6), 0..3 (n<=3 + seed block)' if tier == 'quick' else '0..3 (n<=6), 0..2 (n=7)',
        variants=len(VARIANTS), structured_gap_sizes=sorted(sets.get('structured_gap_sizes', ())),
        structured_max_catalogs=max(sets.get('structured_n_catalogs', [0])),
        big_patterns=len(BIG_CYCLES) * len(POLICIES))
    return dict(evidence=ev, failures=[])
