"""C16 Binary likelihood and Brier scores equal their definitions."""
import hashlib
import itertools
import math

import numpy

from mc import env, fixtures, space
from mc.engine import Fail, result
from mc.ref import ref_stats as rs

ID = 'C16'
RULE = ('array level: shapes (n,) and (n,m) with n*m<=4; rates: ALL assignments over {0,1e-9,1e-3,0.5,1,10}; counts: ALL '
        'assignments over {0,1,3}; binary_joint_log_likelihood_ndarray and _brier_score_ndarray on every pair. Public '
        'level: binary_spatial_test, binary_conditional_likelihood_test, brier_score_test on every rate assignment over '
        '{0,1e-9,0.5,10} x every count assignment over {0,1,3} of 2x1, 1x2 and 2x2 space-magnitude grids with real '
        'forecasts/catalogs (scripted numpy.random so the rejection loop is owned); the simulated array is recorded and '
        'its test-distribution entry recomputed. A pair is non-trivial iff some count is >1, some rate is 0, or no bin '
        'is active; distinct by construction. Structured large arrays: 60 / 600 / 12000 bins (shape n/20 x 20, C and F order), rates cycling over 3 alphabets x 4 count patterns.')
ASSUMPTIONS = ['the stated formula ln(1-exp(-rate)) is conceded its own double-precision conditioning: 4*eps/rate absolute per active bin',
               'reference = sum ln(-expm1(-rate)) over active bins + sum(-rate) over inactive; Brier = -2/N sum (1-exp(-rate) - '
               '[active])^2; tolerance 1e-10 relative to the sum of absolute terms',
               'observations with more active bins than positive-rate bins are outside the simulation precondition: the '
               'observed statistic is still judged, the simulation is not run']

RATES = [0.0, 1e-9, 1e-3, 0.5, 1.0, 10.0]
RATES_PUB = [0.0, 1e-9, 0.5, 10.0]
COUNTS = [0, 1, 3]
SHAPES = [(1,), (2,), (3,), (4,), (2, 1), (1, 2), (1, 3), (3, 1), (2, 2)]


def cases(tier, seed):
    for shape in SHAPES:
        n = int(numpy.prod(shape))
        rl = [list(r) for r in itertools.product(RATES, repeat=n)]
        for chunk in space.chunks(rl, 40 if n == 4 else 300):
            yield dict(kind='array', shape=list(shape), rates=chunk)
    for shape in ((2, 1), (1, 2), (2, 2)):
        n = shape[0] * shape[1]
        ra = RATES_PUB if tier == 'quick' else RATES
        rl = [list(r) for r in itertools.product(ra, repeat=n) if any(x > 0 for x in r)]
        for chunk in space.chunks(rl, 4):
            yield dict(kind='public', shape=list(shape), rates=chunk)
    # structured LARGE arrays (hundreds to thousands of active bins: products of probabilities leave the double range)
    for n in (60, 600, 12000):
        for rp in range(3):
            yield dict(kind='arraylarge', shape=[n // 20, 20], n=n, rpat=rp)
    if tier == 'quick':
        extra = [1e-6, 0.1, 3.0, 50.0][seed % 4]
        rl = [list(r) for r in itertools.product([0.0, extra, 1.0], repeat=4)]
        yield dict(kind='array', shape=[2, 2], rates=rl)


def same(a, b, mag):
    a, b = float(a), float(b)
    if math.isinf(a) or math.isinf(b) or math.isnan(a) or math.isnan(b):
        return a == b
    return abs(a - b) <= 1e-10 * mag + 1e-12


def ref_binary(rates, counts):
    """(value, tolerance scale). The property states the formula ln(1 - exp(-rate)); evaluated in double precision that
    expression has an absolute error of about eps/rate per active bin (cancellation in 1 - exp(-rate)), so that much is
    conceded on top of the relative tolerance (the reference itself uses expm1)."""
    v = rs.binary_jll(rates, counts)
    mag = sum(abs(math.log(-math.expm1(-l))) if (w > 0 and l > 0) else abs(l) for l, w in zip(rates, counts))
    cond = sum(4 * 2.0 ** -52 / l for l, w in zip(rates, counts) if w > 0 and l > 0)
    return v, mag + cond * 1e10


def cls_of(rates, counts):
    if any(w > 0 and l <= 0 for l, w in zip(rates, counts)):
        return 'event-in-zero-rate-bin'
    if not any(w > 0 for w in counts):
        return 'no-active-bin'
    return 'general'


def run_array(case, failures, hsh):
    from csep.core import binomial_evaluations as be, brier_evaluations as br
    shape = tuple(case['shape'])
    n = int(numpy.prod(shape))
    evals = nontriv = states = 0
    count_list = [list(c) for c in itertools.product(COUNTS, repeat=n)]
    variants = [('C', float, float)]
    if len(shape) == 2 and min(shape) > 1:
        variants += [('F', float, float), ('T', float, int), ('Fr', float, float), ('Fc', float, int)]
        # F: both column-major; T: both transposed views; Fr: only the rates column-major; Fc: only the counts column-major
    else:
        variants += [('C', float, int)]                              # integer count array
    variants += [('C', numpy.float32, float)]                        # rates stored in single precision
    for rates in case['rates']:
      for layout, rdt, cdt in variants:
        f = numpy.array(rates, dtype=rdt).reshape(shape)
        if layout in ('F', 'Fr'):
            f = numpy.asfortranarray(f)
        elif layout == 'T':
            f = numpy.ascontiguousarray(f.T).T
        rates_given = rates
        if rdt is numpy.float32:
            rates = [float(x) for x in numpy.array(rates_given, dtype=numpy.float32)]      # the stored values are the rates
        if layout != 'C' or cdt is not float or rdt is not float:
            if rates_given != case['rates'][0] and hash(tuple(rates_given)) % 4:
                continue            # layout / dtype variants on a fixed quarter of the rate assignments (and always on the first)
        for counts in count_list:
            c = numpy.array(counts, dtype=cdt).reshape(shape)
            if layout in ('F', 'Fc'):
                c = numpy.asfortranarray(c)
            elif layout == 'T':
                c = numpy.ascontiguousarray(c.T).T
            states += 1
            if max(counts) > 1 or 0.0 in rates or max(counts) == 0:
                nontriv += 1
            cls = cls_of(rates, counts) + ('' if (layout == 'C' and cdt is float and rdt is float) else f',layout={layout},counts={cdt.__name__}' + (',float32-rates' if rdt is numpy.float32 else ''))
            rep = dict(kind='array1', shape=list(shape), rates=rates_given, counts=counts, layout=layout, cdt=cdt.__name__, rdt=('float32' if rdt is numpy.float32 else 'float'))
            c_before, f_before = c.copy(), f.copy()
            try:
                got = float(be.binary_joint_log_likelihood_ndarray(f, c))
                want, mag = ref_binary(rates, counts)
                evals += 1
                hsh.update(repr(got).encode())
                if not same(got, want, mag):
                    failures.append(Fail(f'binomial_evaluations.binary_joint_log_likelihood_ndarray|differs-from-definition|{cls}',
                                         f'got {got!r}, definition gives {want!r} for rates {rates} counts {counts} shape {shape}', rep))
            except Exception as e:
                failures.append(Fail(f'binomial_evaluations.binary_joint_log_likelihood_ndarray|{type(e).__name__}|{cls}', f'{type(e).__name__}: {e} rates={rates} counts={counts}', rep))
            try:
                got = float(br._brier_score_ndarray(f, c))
                want = rs.brier(rates, counts)
                evals += 1
                hsh.update(repr(got).encode())
                if not same(got, want, 2.0):
                    failures.append(Fail(f'brier_evaluations._brier_score_ndarray|differs-from-definition|{cls}',
                                         f'got {got!r}, definition gives {want!r} for rates {rates} counts {counts} shape {shape}', rep))
            except Exception as e:
                failures.append(Fail(f'brier_evaluations._brier_score_ndarray|{type(e).__name__}|{cls}', f'{type(e).__name__}: {e} rates={rates} counts={counts}', rep))
            # the caller's arrays are inputs: scoring must leave them as they were (they are scored again, against other forecasts)
            if not (numpy.array_equal(c, c_before) and numpy.array_equal(f, f_before)):
                failures.append(Fail(f'binomial/brier array functions|callers-array-modified|{cls}',
                                     f'after scoring, counts {c_before.ravel().tolist()} -> {c.ravel().tolist()}, rates {f_before.ravel().tolist()} -> {f.ravel().tolist()}', rep))
        rates = rates_given
        if len(failures) > 200:
            break
    return evals, nontriv, states


def run_public(case, failures, hsh):
    from csep.core import binomial_evaluations as be, brier_evaluations as br
    from mc.checks.c06 import Spy
    nc, nm = case['shape']
    n = nc * nm
    reg, origins, mags = fixtures.grid_setup(nc, nm)
    evals = nontriv = states = 0
    count_list = case.get('counts') or [list(c) for c in itertools.product(COUNTS, repeat=n)]
    cats = {}
    plan = [(r_, 'plain') for r_ in case['rates']] + [(r_, 'array-scaled') for r_ in case['rates'][::2]]
    # the SAME forecast object evaluated before with other rates of the same shape and the same total (the rates in reverse
    # order), then given the rates of the case in place: every test must report the values of the rates it is called with
    plan += [(r_, 'reused') for r_ in case['rates'][1::2]]
    if case.get('fvar'):
        plan = [(r_, case['fvar']) for r_ in case['rates']]        # replay of one stored failure
    for rates, fvar in plan:
        data = numpy.array(rates, dtype=float).reshape(nc, nm)
        if fvar == 'plain':
            fc = fixtures.gridded_forecast(data, reg, mags)
        elif fvar == 'reused':
            # previous rates: two positive cells i, j exchanged (same multiset, same total); the rates of the case are then
            # reached in place through the public scale(<ndarray>) with factors r_i/r_j and r_j/r_i when that is exact in floats
            built = False
            posc = [k for k in range(n) if rates[k] > 0]
            for i_, j_ in itertools.combinations(posc, 2):
                if rates[i_] == rates[j_]:
                    continue
                pr = list(rates)
                pr[i_], pr[j_] = pr[j_], pr[i_]
                f_ = numpy.ones(n)
                f_[i_], f_[j_] = rates[i_] / rates[j_], rates[j_] / rates[i_]
                if pr[i_] * f_[i_] != rates[i_] or pr[j_] * f_[j_] != rates[j_]:
                    continue
                fc = fixtures.gridded_forecast(numpy.array(pr, dtype=float).reshape(nc, nm), reg, mags)
                warm = fixtures.catalog(fixtures.events_from_counts(numpy.array([1] + [0] * (n - 1)).reshape(nc, nm), origins, mags), region=reg)
                for fn_ in (be.binary_spatial_test, be.binary_conditional_likelihood_test, br.brier_score_test):
                    try:
                        with env.scripted_random(env.Script(uniforms=[0.5] * 64)):
                            fn_(fc, warm, num_simulations=1, seed=None)
                    except Exception:
                        pass      # the warm-up is only history; its own outcome is judged by the plain variant of those rates
                fc.scale(f_.reshape(nc, nm))
                built = numpy.array_equal(numpy.asarray(fc.data), data)
                if built:
                    break
            if not built:
                continue          # no exact exchange exists for these rates
        else:
            # the same rates reached through scale(<per-cell ndarray of shape (n_cells, 1)>), powers of two (exact)
            a_ = numpy.array([[2.0, 0.5, 4.0, 0.25][c % 4] for c in range(nc)]).reshape(nc, 1)
            fc = fixtures.gridded_forecast(data / a_, reg, mags)
            fc.scale(a_)
        for counts in count_list:
            key = tuple(counts)
            if key not in cats:
                cats[key] = fixtures.catalog(fixtures.events_from_counts(numpy.array(counts).reshape(nc, nm), origins, mags), region=reg)
            cat = cats[key]
            cnt = numpy.array(counts).reshape(nc, nm)
            states += 1
            if max(counts) > 1 or 0.0 in rates or max(counts) == 0:
                nontriv += 1
            for test, mod, fn in (('bS', be, be.binary_spatial_test), ('bCL', be, be.binary_conditional_likelihood_test), ('Br', br, br.brier_score_test)):
                if test == 'bS':
                    vr = [float(x) for x in data.sum(axis=1)]
                    vc = [int(x) for x in cnt.sum(axis=1)]
                else:
                    vr = [float(x) for x in data.ravel()]
                    vc = [int(x) for x in cnt.ravel()]
                nact = sum(1 for w in vc if w > 0)
                npos = sum(1 for l in vr if l > 0)
                cls = cls_of(vr, vc) + {'plain': '', 'array-scaled': ',forecast-scaled-by-a-per-cell-array', 'reused': ',forecast-object-evaluated-before-with-other-rates'}[fvar]
                site = f'{mod.__name__.split(".")[-1]}.{fn.__name__}'
                rep = dict(kind='public', shape=case['shape'], rates=[rates], counts=[counts])
                if fvar == 'reused':
                    rep['fvar'] = fvar
                simulate = nact <= npos
                mids = rs.midpoints(vr)
                script = [mids[i % len(mids)] for i in range(4 * len(mids))]
                try:
                    with env.scripted_random(env.Script(uniforms=script)), Spy(mod) as spy:
                        res = fn(fc, cat, num_simulations=1 if simulate else 0, seed=None)
                except env.Horizon:
                    failures.append(Fail(f'{site}|rejection-loop-exhausts-script|{cls}', f'rates={rates} counts={counts}', rep))
                    continue
                except ZeroDivisionError:
                    if not simulate:
                        continue     # num_simulations=0: quantile undefined; the observed statistic cannot be read this way
                    raise
                except Exception as e:
                    failures.append(Fail(f'{site}|{type(e).__name__}|{cls}', f'{type(e).__name__}: {e} rates={rates} counts={counts}', rep))
                    continue
                evals += 1
                got = float(res.observed_statistic)
                hsh.update(repr((test, got)).encode())
                if test == 'Br':
                    want, mag = rs.brier(vr, vc), 2.0
                else:
                    want, mag = ref_binary(vr, vc)
                if not same(got, want, mag):
                    failures.append(Fail(f'{site}|observed-statistic-differs-from-definition|{cls}',
                                         f'{test}: observed_statistic={got!r}, definition gives {want!r} (rates {vr}, counts {vc})', rep))
                    continue
                # injected random numbers: EVERY tuple of interval midpoints (two draws may fall into the same bin, the simulated
                # catalog then holds two events in one bin and must still be scored by activity only)
                if simulate and 1 <= nact <= 2:
                    tuples = list(itertools.product(mids, repeat=nact))
                    rn = numpy.array(tuples, dtype=float).reshape(len(tuples), nact)
                    try:
                        with Spy(mod) as spy2:
                            res2 = fn(fc, cat, num_simulations=len(tuples), random_numbers=rn)
                        evals += len(tuples)
                        td2 = [float(x) for x in res2.test_distribution]
                        posb = [k for k, r_ in enumerate(vr) if r_ > 0]
                        for t, call, entry in zip(tuples, spy2.calls, td2):
                            simc = [int(x) for x in call['out']]
                            # the simulated catalog is the one the injected numbers define: each midpoint lies in the cumulative
                            # interval of one positive-rate bin
                            expc = [0] * len(vr)
                            for u_ in t:
                                expc[posb[mids.index(u_)]] += 1
                            if len(mids) == len(posb) and [x > 0 for x in simc] != [x > 0 for x in expc]:
                                failures.append(Fail(f'{site}|simulated-catalog-is-not-the-one-the-injected-numbers-define|injected-draws',
                                                     f'{test}: injected draws {list(t)} (interval midpoints of bins {[posb[mids.index(u_)] for u_ in t]}) -> simulated counts {simc} (rates {vr})', rep))
                                break
                            if test == 'Br':
                                sw, sm = rs.brier(vr, simc), 2.0
                            else:
                                sw, sm = ref_binary(vr, simc)
                            if not same(entry, sw, sm):
                                failures.append(Fail(f'{site}|test-distribution-entry-differs-from-score-of-simulated-catalog|injected-draws',
                                                     f'{test}: injected draws {list(t)} -> simulated counts {simc}, entry {entry!r}, definition gives {sw!r} (rates {vr})', rep))
                                break
                        want_q = rs.quantile_le(td2, float(res2.observed_statistic))
                        if float(res2.quantile) != want_q:
                            failures.append(Fail(f'{site}|quantile-not-fraction-of-sims-le-observed|injected-draws', f'{res2.quantile} vs {want_q}', rep))
                    except Exception as e:
                        failures.append(Fail(f'{site}|{type(e).__name__}|injected-draws', f'{type(e).__name__}: {e} rates={rates} counts={counts}', rep))
                if simulate and spy.calls:
                    sim = [int(x) for x in spy.calls[0]['out']]
                    td = [float(x) for x in res.test_distribution]
                    if test == 'Br':
                        sw, sm = rs.brier(vr, sim), 2.0
                    else:
                        sw, sm = ref_binary(vr, sim)
                    if len(td) != 1 or not same(td[0], sw, sm):
                        failures.append(Fail(f'{site}|test-distribution-entry-differs-from-score-of-simulated-catalog|{cls}',
                                             f'{test}: entry {td}, definition gives {sw!r} for simulated {sim} (rates {vr})', rep))
        if len(failures) > 100:
            break
    return evals, nontriv, states


LARGE_RATES = [[1e-9, 1e-6, 1e-3, 0.01, 0.5, 1.0, 10.0], [1e-9], [0.1, 0.0, 2.0]]


def run_arraylarge(case, failures, hsh):
    from csep.core import binomial_evaluations as be, brier_evaluations as br
    n, shape = case['n'], tuple(case['shape'])
    alpha = LARGE_RATES[case['rpat']]
    rates = [alpha[i % len(alpha)] for i in range(n)]
    evals = 0
    for cp in range(4):
        counts = [[1, (2 if i % 3 == 0 else 0), 0, (1 if (i < n // 2 and rates[i] > 0) else 0)][cp] for i in range(n)]
        cls = cls_of(rates, counts) + ',many-bins'
        rep = dict(kind='arraylarge', shape=list(shape), n=n, rpat=case['rpat'])
        for lay in ('C', 'F'):
            f = numpy.array(rates, dtype=float).reshape(shape)
            c = numpy.array(counts, dtype=float).reshape(shape)
            if lay == 'F':
                f, c = numpy.asfortranarray(f), numpy.asfortranarray(c)
            try:
                got = float(be.binary_joint_log_likelihood_ndarray(f, c))
                want, mag = ref_binary(rates, counts)
                evals += 1
                hsh.update(repr(got).encode())
                if not same(got, want, mag):
                    failures.append(Fail(f'binomial_evaluations.binary_joint_log_likelihood_ndarray|differs-from-definition|{cls}',
                                         f'got {got!r}, definition gives {want!r} for {n} bins, rates cycling over {alpha}, count pattern {cp} ({sum(1 for w in counts if w > 0)} active bins), layout {lay}', rep))
                got = float(br._brier_score_ndarray(f, c))
                evals += 1
                if not same(got, rs.brier(rates, counts), 2.0):
                    failures.append(Fail(f'brier_evaluations._brier_score_ndarray|differs-from-definition|{cls}',
                                         f'got {got!r}, definition gives {rs.brier(rates, counts)!r} for {n} bins, rates cycling over {alpha}, count pattern {cp}', rep))
            except Exception as e:
                failures.append(Fail(f'binomial_evaluations.binary_joint_log_likelihood_ndarray|{type(e).__name__}|{cls}', f'{type(e).__name__}: {e} n={n}', rep))
    return evals, 4, 4


def run_case(case):
    failures = []
    hsh = hashlib.sha1()
    numpy.random.seed(97531)
    k = case['kind']
    if k == 'arraylarge':
        evals, nontriv, states = run_arraylarge(case, failures, hsh)
    elif k == 'array':
        evals, nontriv, states = run_array(case, failures, hsh)
    elif k == 'array1':
        from csep.core import binomial_evaluations as be, brier_evaluations as br
        shape = tuple(case['shape'])
        rates, counts = case['rates'], case['counts']
        f = numpy.array(rates, dtype=(numpy.float32 if case.get('rdt') == 'float32' else float)).reshape(shape)
        rates = [float(x) for x in f.ravel()]
        c = numpy.array(counts, dtype=(int if case.get('cdt') == 'int' else float)).reshape(shape)
        if case.get('layout') == 'F':
            f, c = numpy.asfortranarray(f), numpy.asfortranarray(c)
        elif case.get('layout') == 'Fr':
            f = numpy.asfortranarray(f)
        elif case.get('layout') == 'Fc':
            c = numpy.asfortranarray(c)
        elif case.get('layout') == 'T':
            f, c = numpy.ascontiguousarray(f.T).T, numpy.ascontiguousarray(c.T).T
        cls = cls_of(rates, counts) + ('' if (case.get('layout', 'C') == 'C' and case.get('cdt', 'float') == 'float' and case.get('rdt', 'float') == 'float') else f',layout={case.get("layout")},counts={case.get("cdt")}' + (',float32-rates' if case.get('rdt') == 'float32' else ''))
        c_before = c.copy()
        got = float(be.binary_joint_log_likelihood_ndarray(f, c))
        want, mag = ref_binary(rates, counts)
        if not same(got, want, mag):
            failures.append(Fail(f'binomial_evaluations.binary_joint_log_likelihood_ndarray|differs-from-definition|{cls}', f'got {got!r} want {want!r}', case))
        got = float(br._brier_score_ndarray(f, c))
        if not same(got, rs.brier(rates, counts), 2.0):
            failures.append(Fail(f'brier_evaluations._brier_score_ndarray|differs-from-definition|{cls}', f'got {got!r} want {rs.brier(rates, counts)!r}', case))
        if not numpy.array_equal(c, c_before):
            failures.append(Fail(f'binomial/brier array functions|callers-array-modified|{cls}', f'{c_before.ravel().tolist()} -> {c.ravel().tolist()}', case))
        evals, nontriv, states = 2, 1, 1
    elif k == 'public':
        evals, nontriv, states = run_public(case, failures, hsh)
    else:
        evals, nontriv, states = run_public(dict(shape=case['shape'], rates=[case['rates']], counts=[case['counts']]), failures, hsh)
    seen, uniq = set(), []
    for f in failures:
        if f['signature'] not in seen:
            seen.add(f['signature'])
            uniq.append(f)
    sample = dict(case) if k == 'arraylarge' else dict(kind=k, shape=case['shape'], rates=(case['rates'][0] if k in ('array', 'public') else case['rates']))
    return result(evals=evals, states=states, transitions=evals, nontrivial=nontriv, failures=uniq, digest=hsh.hexdigest(),
                  sample=sample)
