"""C09 Empirical quantiles treat ties and out-of-range observations exactly."""
import hashlib
import numpy

from mc import space
from mc.engine import Fail, result

ID = 'C09'
RULE = ('every multiset of size 1..7 (thorough 1..9 over 7 letters) over a 6-letter integer alphabet and a 6-letter '
        'real alphabet; every query v on a letter, at every gap midpoint, below and above; sample presented sorted, '
        'reversed, rotated; as list, int/float array; plus structured heavy-tie samples n in {100,1000}, x_i = i mod m; an integer alphabet crossing zero; histories that overwrite the sample array in place between queries. '
        'A (multiset, v) pair is non-trivial iff the multiset has a repeated value, or v equals a sample value, or v '
        'lies outside the sample range; pairs are distinct by construction (enumeration without repetition).')
ASSUMPTIONS = ['reference = counting with Python comparison and one correctly rounded division count/n',
               'values between alphabet letters other than gap midpoints are not explored']

INT_ALPHA = [0, 1, 2, 3, 4, 5]
REAL_ALPHA = [-1.5, -0.25, 0.0, 0.1, 0.30000000000000004, 2.5]
INT_ALPHA_T = [0, 1, 2, 3, 4, 5, 6]
REAL_ALPHA_T = [-1.5, -0.25, 0.0, 0.1, 0.30000000000000004, 2.5, 1e6]


def queries(alpha):
    a = sorted(alpha)
    q = list(a)
    q += [(a[i] + a[i + 1]) / 2 for i in range(len(a) - 1)]
    q += [a[0] - 1, a[-1] + 1]
    return sorted(q)


def cases(tier, seed):
    if tier == 'quick':
        fams = [('int', INT_ALPHA, 7), ('real', REAL_ALPHA, 7)]
    else:
        fams = [('int', INT_ALPHA_T, 9), ('real', REAL_ALPHA_T, 9)]
    for name, alpha, mx in fams:
        for chunk in space.chunks(space.multisets(alpha, 1, mx), 40):
            yield dict(kind='multisets', family=name, alpha=alpha, msets=[list(m) for m in chunk])
    for n in (100, 1000):
        for m in (1, 2, 7):
            yield dict(kind='structured', n=n, m=m)
    # values of large and of tiny magnitude (neighbouring values differ by far less than 1e-5 relative / 1e-8 absolute)
    for name, alpha in (('int-1e5', [100000, 100001, 100002, 100003]), ('real-1e3', [-2345.67, -2345.66, 1234.56, 1234.57]),
                        ('tiny', [1e-9, 2e-9, 3e-9, 0.0]), ('int-1e9', [10 ** 9, 10 ** 9 + 1, 10 ** 9 + 2])):
        for chunk in space.chunks(space.multisets(alpha, 1, 5), 60):
            yield dict(kind='multisets', family=name, alpha=alpha, msets=[list(m) for m in chunk])
    # long samples on both sides of 1000 / 10000 elements
    for n in (999, 1001, 1024, 5000, 10001):
        for m in (2, 7):
            yield dict(kind='structured', n=n, m=m)
    # integer alphabet that crosses zero (negative values and negative non-integer queries)
    neg = [-3, -2, -1, 0, 1, 2]
    for chunk in space.chunks(space.multisets(neg, 1, 5 if tier == 'quick' else 7), 60):
        yield dict(kind='multisets', family='int-negative', alpha=neg, msets=[list(m) for m in chunk])
    # INPUT FORMS: every multiset of size 1..4 over {0..5} as unsigned/signed/narrow-float arrays, tuple, pandas Series, strided and
    # reversed views, read-only arrays; queries as numpy scalars
    for chunk in space.chunks(space.multisets(INT_ALPHA, 1, 4), 30):
        yield dict(kind='multisets', family='forms', alpha=INT_ALPHA, msets=[list(m) for m in chunk], forms=ALL_FORMS)
    # histories on ONE array object: query, overwrite the array in place with another sample, query again
    small = [list(m) for m in space.multisets([0, 1, 2, 3], 3, 3)]
    for chunk in space.chunks([(a, b) for a in small for b in small if a != b], 60):
        yield dict(kind='inplace', pairs=[[a, b] for a, b in chunk])
    # seed-selected extra block: a shifted/scaled real alphabet (complete enumeration of that block)
    shift = [0.1, 1e-9, 123456.789, -7.25][seed % 4]
    alpha = [x + shift for x in REAL_ALPHA]
    for chunk in space.chunks(space.multisets(alpha, 1, 5), 60):
        yield dict(kind='multisets', family=f'real+{shift}', alpha=alpha, msets=[list(m) for m in chunk])


def ref_ge(x, v):
    return sum(1 for xi in x if xi >= v) / len(x)


def ref_le(x, v):
    return sum(1 for xi in x if xi <= v) / len(x)


def presentations(ms):
    n = len(ms)
    out = [('sorted', list(ms)), ('reversed', list(ms)[::-1])]
    if n > 2:
        r = n // 2
        out.append(('rotated', list(ms)[r:] + list(ms)[:r]))
    return out


def judge_sample(x_list, qs, failures, h, tag, forms=('list', 'array', 'farray')):
    from csep.utils import stats
    evals = 0
    nontriv = 0
    prev = None
    is_int = all(isinstance(v, int) for v in x_list)
    has_tie = len(set(x_list)) < len(x_list)
    for v in qs:
        ege, ele = ref_ge(x_list, v), ref_le(x_list, v)
        if has_tie or v in x_list or v < min(x_list) or v > max(x_list):
            nontriv += 1
        v_ref = v
        for form in forms:
            v = v_ref
            if form == 'list':
                x = list(x_list)
            elif form == 'array':
                x = numpy.array(x_list)
            elif form == 'farray':
                x = numpy.array(x_list, dtype=float)
            else:
                x, v = make_form(x_list, v_ref, form)
            obs = {}
            try:
                obs['get_quantiles'] = tuple(float(t) for t in stats.get_quantiles(x, v))
                obs['ge'] = float(stats.greater_equal_ecdf(x, v))
                obs['le'] = float(stats.less_equal_ecdf(x, v))
                cdf = stats.ecdf(x)
                obs['ge_cdf'] = float(stats.greater_equal_ecdf(x, v, cdf=cdf))
                obs['le_cdf'] = float(stats.less_equal_ecdf(x, v, cdf=cdf))
                b = stats.binned_ecdf(x, [v])
                obs['binned'] = float(b[1][0])
            except Exception as e:
                failures.append(Fail(f'csep.utils.stats|{type(e).__name__}|{tag}', f'{type(e).__name__}: {e} x={x_list} v={v} form={form}',
                                     dict(kind='single', x=x_list, v=v, form=form)))
                continue
            evals += 6
            h.update(repr(sorted(obs.items())).encode())
            exp = {'get_quantiles': (ege, ele), 'ge': ege, 'le': ele, 'ge_cdf': ege, 'le_cdf': ele, 'binned': ele}
            for k in exp:
                if obs[k] != exp[k]:
                    failures.append(Fail(f'csep.utils.stats.{k}|value|{_cls(x_list, v)}',
                                         f'{k}: expected {exp[k]} got {obs[k]} for x={x_list[:12]}{"..." if len(x_list) > 12 else ""} v={v} form={form}',
                                         dict(kind='single', x=x_list, v=v, form=form)))
            # consequences: sum identity, range
            d1, d2 = obs['get_quantiles']
            eq = sum(1 for xi in x_list if xi == v) / len(x_list)
            if abs((d1 + d2) - (1 + eq)) > 1e-12 or not (0 <= d1 <= 1 and 0 <= d2 <= 1):
                failures.append(Fail(f'csep.utils.stats.get_quantiles|identity|{_cls(x_list, v)}',
                                     f'd1+d2={d1 + d2} expected {1 + eq}; x={x_list[:12]} v={v}',
                                     dict(kind='single', x=x_list, v=v, form=form)))
            if form == forms[0]:
                if prev is not None and (d1 > prev[0] or d2 < prev[1]):
                    failures.append(Fail('csep.utils.stats.get_quantiles|monotone|any',
                                         f'not monotone in v: v={prev[2]} -> {prev[:2]}, v={v} -> {(d1, d2)} x={x_list[:12]}',
                                         dict(kind='mono', x=x_list, vs=[prev[2], v], form=form)))
                prev = (d1, d2, v)
    return evals, nontriv


DTYPE_FORMS = ['uint8', 'uint16', 'uint32', 'uint64', 'int8', 'int16', 'int32', 'float32', 'float16']
OTHER_FORMS = ['tuple', 'series', 'strided', 'reversed-view', 'read-only', 'q-float64', 'q-int64', 'q-float32', 'q-uint8']
ALL_FORMS = DTYPE_FORMS + OTHER_FORMS


def make_form(x_list, v, form):
    """The same sample / query in another legitimate form (small non-negative integers and halves: exact in every dtype used)."""
    if form in DTYPE_FORMS:
        return numpy.array(x_list, dtype=form), v
    if form == 'tuple':
        return tuple(x_list), v
    if form == 'series':
        import pandas
        return pandas.Series(x_list), v
    if form == 'strided':
        buf = numpy.full(2 * len(x_list), 99, dtype=float)
        buf[::2] = x_list
        return buf[::2], v
    if form == 'reversed-view':
        return numpy.array(x_list[::-1], dtype=float)[::-1], v
    if form == 'read-only':
        a = numpy.array(x_list, dtype=float)
        a.setflags(write=False)
        return a, v
    x = numpy.array(x_list)
    if form == 'q-float64':
        return x, numpy.float64(v)
    if form == 'q-float32':
        return x, numpy.float32(v)
    if form == 'q-int64':
        return x, (numpy.int64(v) if float(v).is_integer() else numpy.float64(v))
    if form == 'q-uint8':
        return x, (numpy.uint8(v) if float(v).is_integer() and 0 <= v < 256 else numpy.float64(v))
    raise ValueError(form)


def _cls(x, v):
    if v < min(x):
        return 'below'
    if v > max(x):
        return 'above'
    if v in x:
        return 'tie-on-value' if list(x).count(v) > 1 else 'on-value'
    return 'between'


def run_case(case):
    failures = []
    h = hashlib.sha1()
    evals = nontriv = states = 0
    if case['kind'] == 'multisets':
        qs = queries(case['alpha'])
        for ms in case['msets']:
            states += 1
            for pname, x in presentations(ms):
                e, nt = judge_sample(x, qs, failures, h, pname, **({'forms': tuple(case['forms'])} if case.get('forms') else {}))
                evals += e
                if pname == 'sorted':
                    nontriv += nt
        sample = dict(multiset=case['msets'][0], queries=qs)
    elif case['kind'] == 'structured':
        n, m = case['n'], case['m']
        x = [i % m for i in range(n)]
        qs = sorted(set([-1, m] + list(range(m)) + [j + 0.5 for j in range(m)]))
        e, nt = judge_sample(x, qs, failures, h, 'structured', forms=('list', 'farray'))
        evals += e
        nontriv += nt
        states += 1
        sample = dict(structured=dict(n=n, m=m), queries=qs)
    elif case['kind'] == 'inplace':
        from csep.utils import stats
        for a, b in case['pairs']:
            states += 1
            for dtype in (int, float):
                arr = numpy.array(a, dtype=dtype)
                qs = [-0.5, 0, 1, 1.5, 2, 3, 3.5]
                for v in qs:
                    stats.get_quantiles(arr, v)
                    stats.binned_ecdf(arr, [v])
                # the caller owns what ecdf() returned: scaling it in place (a percent axis) must not change later answers
                ex_, ey_ = stats.ecdf(arr)
                try:
                    ey_ *= 100.0
                    ex_ += 7
                except (ValueError, TypeError):
                    pass
                arr[:] = b                      # same object, new content
                for v in qs:
                    want = (ref_ge(b, v), ref_le(b, v))
                    try:
                        got = tuple(float(t) for t in stats.get_quantiles(arr, v))
                        gb = float(stats.binned_ecdf(arr, [v])[1][0])
                    except Exception as e:
                        failures.append(Fail(f'csep.utils.stats|{type(e).__name__}|after-in-place-overwrite', f'{type(e).__name__}: {e}', dict(kind='inplace', pairs=[[a, b]])))
                        break
                    evals += 2
                    h.update(repr((got, gb)).encode())
                    nontriv += 1
                    if got != want or gb != want[1]:
                        failures.append(Fail('csep.utils.stats.get_quantiles|stale-after-in-place-overwrite-of-the-sample|any',
                                             f'array first held {a} (queried), then overwritten in place with {b}: v={v} -> {got} / binned {gb}, counting gives {want}',
                                             dict(kind='inplace', pairs=[[a, b]])))
                        break
        sample = dict(inplace_pairs=case['pairs'][:2])
    elif case['kind'] == 'mono':
        e, nt = judge_sample(case['x'], case['vs'], failures, h, 'single', forms=(case['form'],))
        evals += e
        nontriv += nt
        states += 1
        sample = case
    else:  # single replay
        e, nt = judge_sample(case['x'], [case['v']], failures, h, 'single', forms=(case['form'],))
        evals += e
        nontriv += nt
        states += 1
        sample = case
    return result(evals=evals, states=states, transitions=evals, nontrivial=nontriv, failures=failures,
                  digest=h.hexdigest(), sample=sample)
