"""C02 One-dimensional binning is lower-inclusive, upper-exclusive, open at the top."""
import hashlib
import itertools

import numpy

from mc import floats
from mc.engine import Fail, result

ID = 'C02'
RULE = ('edge grids = {17 starts} x {8 steps} x n in {0,1,2,7,31,100 | +3600} generated three ways (library '
        'cleaner_range, regions.magnitude_bins, exact decimal reference) + CSEP_MW_BINS + xs/ys of the shipped '
        'regions; probes = EVERY float64 within +-K ulps of EVERY edge (K=256 quick | 1024 thorough; 1024|4096 on the CSEP '
        'magnitude grid and shipped-region edges) + bin midpoints + below/above range; both right_continuous modes; '
        'input forms scalar, 0-d, 1-d, list, float32 (float32 ulp windows), int64 on integer grids. A probe is '
        'non-trivial iff it lies exactly on an edge or within 4 ulps of one; (grid, probe) pairs are distinct by '
        'construction.')
ASSUMPTIONS = ['between the ulp windows the staircase floor(affine(v)) is monotone (checked on every sorted probe list, '
               'not proved)',
               'slack(v,k) = 4*eps*((k+2)(|a0|+h)+|v|) is the documented round-off tolerance: a value closer than that '
               'below edge k may go to either neighbour; a value at or above an edge may never go below it',
               'closed mode: the last edge opens a bin of width h (library convention); only its interior and far '
               'exterior are judged']

STARTS = [5.95, 4.95, 3.95, 2.5, 0.0, 0.05, -0.5, -1.25, -125.4, 31.5, -180.0, -90.0, 166.05, 5.55, 35.85, 1e-3, 100.0]
STEPS = [0.1, 0.05, 0.25, 0.5, 1.0, 0.2, 0.01, 0.025]
# anchors as the shipped region loaders compute them: midpoint - dh/2 (carry float noise)
NOISY = [(-125.35 - 0.05, 0.1), (31.55 - 0.05, 0.1), (166.05 - 0.05, 0.1), (-47.95 - 0.05, 0.1), (4.95 - 0.05, 0.1),
         (35.35 - 0.05, 0.1), (-179.75 - 0.25, 0.5), (0.3 - 0.05, 0.1)]
EPS = float(numpy.finfo(numpy.float64).eps)
EPS32 = float(numpy.finfo(numpy.float32).eps)


def cases(tier, seed):
    ns = [0, 1, 2, 7, 31, 100] + ([3600] if tier == 'thorough' else [])
    K = 256 if tier == 'quick' else 1024
    pairs = list(itertools.product(STARTS, STEPS))
    for start, step in pairs:
        yield dict(kind='grid', start=start, step=step, ns=ns, K=K)
    # steps whose reciprocal is not an integer / which are coarser than 0.1, on integral and non-integral starts
    for start, step in itertools.product([4.0, -2.0, 0.0, 100.0, 5.95, -0.5], [0.3, 0.4, 0.6, 0.7, 0.15, 0.125, 0.75, 1.5]):
        yield dict(kind='grid', start=start, step=step, ns=[1, 7, 31], K=16)
    for start, step in NOISY:
        yield dict(kind='grid', start=start, step=step, ns=[1, 7, 100], K=K, noisy=True)
    yield dict(kind='named', name='CSEP_MW_BINS', K=4096 if tier == 'thorough' else 1024)
    regs = ['nz_csep_region', 'nz_csep_collection_region', 'italy_csep_collection_region',
            'california_relm_collection_region', 'global_1.0'] + (['global_0.5'] if tier == 'thorough' else [])
    for r in regs:
        for ax in ('xs', 'ys'):
            yield dict(kind='named', name=f'{r}.{ax}', K=4096 if tier == 'thorough' else 512)
    for start, step in itertools.product([0, -5, 100], [1, 2, 5]):
        yield dict(kind='intgrid', start=start, step=step)
    # ORDER of the first calls in a process: every ordered pair of (dtype of points, dtype of edges) binnings, the second one judged
    yield dict(kind='order')
    if tier == 'quick':
        # seed-selected additional complete block: the 3600-bin grids of one (start, step) pair
        start, step = pairs[seed % len(pairs)]
        yield dict(kind='grid', start=start, step=step, ns=[3600], K=16)


# --------------------------------------------------------------------------------------- reference
def slack(v, k, a0, h, eps=EPS):
    return 4.0 * eps * ((numpy.asarray(k) + 2.0) * (abs(a0) + h) + numpy.abs(v))


def judge_grid(E, probes, near, mode, failures, grid_desc, h_out, eps=EPS, as_dtype=None, form='1d'):
    """E: edge array; probes: float64 values (exact value of what is passed); near: index of the edge each probe
    was generated around (-1: far below, len(E): far above -> handled by comparison).
    Returns (#evals, #nontrivial)."""
    from csep.utils.calc import bin1d_vec
    m = len(E)
    rc = (mode == 'open')
    arg = probes if as_dtype is None else probes.astype(as_dtype)
    try:
        if form == 'list':
            got = numpy.asarray(bin1d_vec(list(map(float, arg)), E, right_continuous=rc))
        elif form == 'scalar':
            got = numpy.array([int(bin1d_vec(float(p), E, right_continuous=rc)) for p in arg])
        elif form == '0d':
            got = numpy.array([int(bin1d_vec(numpy.asarray(p), E, right_continuous=rc)) for p in arg])
        else:
            got = numpy.asarray(bin1d_vec(arg, E, right_continuous=rc))
    except Exception as e:
        failures.append(Fail(f'csep.utils.calc.bin1d_vec|{type(e).__name__}|{mode}', f'{type(e).__name__}: {e} grid={grid_desc}',
                             dict(kind='single', edges=[float(x) for x in E[:3]] + ['...'], grid=grid_desc)))
        return 0, 0
    h_out.update(got.tobytes())
    v = probes
    a0 = float(E[0])
    h = float(E[1] - E[0]) if m > 1 else 1.0
    # exact reference bin by pure comparisons: ref = max{k: E[k] <= v} (or -1)
    ref = numpy.searchsorted(E, v, side='right') - 1      # cross-checked below against comparisons near `near`
    j = numpy.clip(near, 0, m - 1)
    # self-check of the reference (pure float comparisons): E[ref] <= v < E[ref+1]
    okref = numpy.ones(len(v), bool)
    inb = ref >= 0
    okref[inb] &= E[ref[inb]] <= v[inb]
    up = ref < m - 1
    okref[up] &= v[up] < E[ref[up] + 1]
    assert okref.all(), 'reference model self-check failed'
    single = (m == 1)
    if rc or single:
        # open at the top
        want = ref.copy()
        too_low = got < want                                  # at/above an edge but binned below it
        lifted = got > want
        ok_lift = lifted & (got == want + 1) & (want + 1 <= m - 1)
        nxt = numpy.clip(want + 1, 0, m - 1)
        dist = E[nxt] - v
        ok_lift &= dist <= slack(v, nxt, a0, h, eps)
        bad_lift = lifted & ~ok_lift
        _report(failures, too_low, 'at-or-above-edge-binned-below', mode, form, E, v, got, want, grid_desc, as_dtype)
        _report(failures, bad_lift, 'binned-above-beyond-tolerance', mode, form, E, v, got, want, grid_desc, as_dtype)
    else:
        top = a0 + m * h if m > 1 else None
        want = ref.copy()
        interior = v < (E[m - 1] + 0.5 * h)
        far = v >= (E[m - 1] + 1.5 * h)
        too_low = interior & (got < want)
        lifted = interior & (got > want)
        nxt = numpy.clip(want + 1, 0, m - 1)
        ok_lift = lifted & (got == want + 1) & (want + 1 <= m - 1) & ((E[nxt] - v) <= slack(v, nxt, a0, h, eps))
        bad_lift = lifted & ~ok_lift
        bad_far = far & (got != -1)
        _report(failures, too_low, 'at-or-above-edge-binned-below', mode, form, E, v, got, want, grid_desc, as_dtype)
        _report(failures, bad_lift, 'binned-above-beyond-tolerance', mode, form, E, v, got, want, grid_desc, as_dtype)
        _report(failures, bad_far, 'beyond-last-bin-not-rejected', mode, form, E, v, got, want, grid_desc, as_dtype)
    # monotone in v
    order = numpy.argsort(v, kind='stable')
    g = got[order].astype(numpy.int64)
    if not (rc or single):
        g = numpy.where((g == -1) & (v[order] > E[m - 1]), m, g)
    dec = numpy.nonzero(numpy.diff(g) < 0)[0]
    if len(dec):
        i = dec[0]
        failures.append(Fail(f'csep.utils.calc.bin1d_vec|non-monotone|{mode}',
                             f'idx({v[order][i]!r})={g[i]} > idx({v[order][i + 1]!r})={g[i + 1]} grid={grid_desc}',
                             dict(kind='single', grid=grid_desc, mode=mode, form=form, dtype=str(as_dtype),
                                  values=[float(v[order][i]), float(v[order][i + 1])])))
    # non-trivial: on an edge or within 4 ulps of one
    d = numpy.abs(v - E[j])
    nontriv = int(numpy.count_nonzero(d <= 4 * numpy.spacing(numpy.abs(E[j]) + 1e-300)))
    return len(v), nontriv


def _report(failures, maskarr, cls, mode, form, E, v, got, want, grid_desc, as_dtype):
    idx = numpy.nonzero(maskarr)[0]
    if len(idx) == 0:
        return
    i = idx[0]
    failures.append(Fail(f'csep.utils.calc.bin1d_vec|{cls}|{mode}{"" if as_dtype is None else "," + numpy.dtype(as_dtype).name}',
                         f'[{form}] value {float(v[i])!r} -> bin {int(got[i])}, reference bin {int(want[i])} '
                         f'(edges around: {[float(x) for x in E[max(0, int(want[i]) - 1):int(want[i]) + 3]]}) grid={grid_desc} '
                         f'[{len(idx)} probe(s) of this class in this grid]',
                         dict(kind='single', grid=grid_desc, mode=mode, form=form, dtype=None if as_dtype is None else numpy.dtype(as_dtype).name,
                              values=[float(v[i])])))


def build_edges(desc):
    """desc -> edge array (float64) from the library or the reference generator."""
    from csep.utils.calc import cleaner_range
    from csep.core import regions
    how = desc['how']
    if how == 'explicit':
        return numpy.array(desc['edges'], dtype=float)
    start, step, n = desc['start'], desc['step'], desc['n']
    ref = numpy.array([floats.decimal_grid(start, step, k) for k in range(n + 1)])
    if how == 'decimal':
        return ref
    end = float(ref[-1])
    if '[' in how:
        conv = {'int-start': int, 'int64-start': numpy.int64, 'float64-start': numpy.float64}[how[how.index('[') + 1:-1]]
        fn = cleaner_range if how.startswith('cleaner_range') else regions.magnitude_bins
        return numpy.asarray(fn(conv(start), end, step), dtype=float)
    if how == 'cleaner_range':
        return numpy.asarray(cleaner_range(start, end, step), dtype=float)
    if how == 'magnitude_bins':
        return numpy.asarray(regions.magnitude_bins(start, end, step), dtype=float)
    raise ValueError(how)


def probes_for(E, K, h):
    m = len(E)
    W = floats.window_vec(E, K)                    # (m, 2K+1)
    near = numpy.repeat(numpy.arange(m), W.shape[1])
    v = W.ravel()
    mids = E + 0.5 * h
    far_lo = [E[0] - h, E[0] - 10 * h, E[0] - 1e6, -1e15, -1e18, -1e19, -1e300, -numpy.inf]
    far_hi = [E[-1] + h, E[-1] + 2 * h, E[-1] + 10 * h, E[-1] + 1e6, 1e15, 1e18, 1e19, 1e300, numpy.inf]
    extra = numpy.concatenate([mids, far_lo, far_hi])
    nx = numpy.concatenate([numpy.arange(m), [0] * len(far_lo), [m - 1] * len(far_hi)])
    return numpy.concatenate([v, extra]), numpy.concatenate([near, nx])


def run_grid(E, K, grid_desc, failures, hsh, forms=True):
    evals = nontriv = 0
    m = len(E)
    h = float(E[1] - E[0]) if m > 1 else 1.0
    v, near = probes_for(E, K, h)
    for mode in ('open', 'closed'):
        e, nt = judge_grid(E, v, near, mode, failures, grid_desc, hsh)
        evals += e
        if mode == 'open':
            nontriv += nt
    if forms:
        v4, near4 = probes_for(E[:min(m, 8)], 2, h)
        E8 = E if m <= 8 else E  # same grid; probes restricted to the first edges
        for form in ('list', 'scalar', '0d'):
            for mode in ('open', 'closed'):
                e, _ = judge_grid(E8, v4, near4, mode, failures, grid_desc, hsh, form=form)
                evals += e
        # float32 probes: every float32 within +-8 float32-ulps of float32(edge)
        e32 = E.astype(numpy.float32)
        rows = [floats.window(x, 8, numpy.float32) for x in e32[:min(m, 32)]]
        p32 = numpy.concatenate(rows).astype(numpy.float32)
        near32 = numpy.repeat(numpy.arange(len(rows)), 17)
        for mode in ('open', 'closed'):
            e, _ = judge_grid(E, p32.astype(numpy.float64), near32, mode, failures, grid_desc, hsh, eps=EPS32,
                              as_dtype=numpy.float32)
            evals += e
    return evals, nontriv, len(v)


def differential(E, grid_desc, failures, hsh):
    """discretize / CSEPCatalog.get_mag_idx / magnitude_counts / GriddedForecast.get_magnitude_index == bin1d_vec."""
    from csep.utils.calc import bin1d_vec, discretize
    from csep.core.exceptions import CSEPException
    from mc import fixtures
    from csep.core.catalogs import CSEPCatalog
    m = len(E)
    if m < 2:
        return 0
    h = float(E[1] - E[0])
    v, _ = probes_for(E[:min(m, 16)], 2, h)
    base = numpy.asarray(bin1d_vec(v, E, right_continuous=True))
    inr = base >= 0
    evals = 0
    rep = dict(kind='single', grid=grid_desc, mode='open', form='1d', dtype=None, values=[float(x) for x in v[:4]])
    try:
        d = discretize(v[inr], E, right_continuous=True)
        evals += 1
        if not numpy.array_equal(d, E[base[inr]]):
            failures.append(Fail('csep.utils.calc.discretize|differs-from-bin1d_vec|open', f'grid={grid_desc}', rep))
        if (~inr).any():
            try:
                discretize(v, E, right_continuous=True)
                failures.append(Fail('csep.utils.calc.discretize|out-of-range-not-rejected|open', f'grid={grid_desc}', rep))
            except CSEPException:
                pass
    except Exception as e:
        failures.append(Fail(f'csep.utils.calc.discretize|{type(e).__name__}|open', f'{e} grid={grid_desc}', rep))
    reg = fixtures.cartesian_region([(0.0, 0.0)], 0.1, magnitudes=E)
    arr = numpy.zeros(int(inr.sum()), dtype=CSEPCatalog.dtype)
    arr['magnitude'] = v[inr]
    arr['latitude'] = 0.05
    arr['longitude'] = 0.05
    cat = CSEPCatalog(data=arr, region=reg)
    try:
        gi = cat.get_mag_idx()
        evals += 1
        if not numpy.array_equal(gi, base[inr]):
            failures.append(Fail('CSEPCatalog.get_mag_idx|differs-from-bin1d_vec|open', f'grid={grid_desc}', rep))
        for mb in (None, E):
            mc = cat.magnitude_counts(mag_bins=mb)
            evals += 1
            if not numpy.array_equal(mc, numpy.bincount(base[inr], minlength=m)):
                failures.append(Fail('CSEPCatalog.magnitude_counts|differs-from-bin1d_vec|open', f'grid={grid_desc}', rep))
        fc = fixtures.gridded_forecast(numpy.ones((1, m)), reg, E)
        fi = fc.get_magnitude_index(v[inr])
        evals += 1
        if not numpy.array_equal(fi, base[inr]):
            failures.append(Fail('GriddedForecast.get_magnitude_index|differs-from-bin1d_vec|open', f'grid={grid_desc}', rep))
        if (~inr).any():
            try:
                fc.get_magnitude_index(v)
                failures.append(Fail('GriddedForecast.get_magnitude_index|out-of-range-not-rejected|open', f'grid={grid_desc}', rep))
            except ValueError:
                pass
        hsh.update(numpy.asarray(gi).tobytes())
        # history on the SAME catalog object: (1) its region is re-bound to one whose magnitude edges start one bin higher,
        # (2) its magnitudes are then edited in place (reversed); the index must follow the current edges and values each time
        if m >= 3:
            E2 = numpy.array(E[1:], dtype=float)
            cat.region = fixtures.cartesian_region([(0.0, 0.0)], 0.1, magnitudes=E2)
            g2 = numpy.asarray(cat.get_mag_idx())
            evals += 1
            if not numpy.array_equal(g2, numpy.asarray(bin1d_vec(v[inr], E2, right_continuous=True))):
                failures.append(Fail('CSEPCatalog.get_mag_idx|differs-from-bin1d_vec|after-rebinding-region-with-other-edges', f'grid={grid_desc}', rep))
            cat.catalog['magnitude'] = cat.catalog['magnitude'][::-1].copy()
            g3 = numpy.asarray(cat.get_mag_idx())
            evals += 1
            if not numpy.array_equal(g3, numpy.asarray(bin1d_vec(v[inr][::-1], E2, right_continuous=True))):
                failures.append(Fail('CSEPCatalog.get_mag_idx|differs-from-bin1d_vec|after-editing-magnitudes-in-place', f'grid={grid_desc}', rep))
    except Exception as e:
        failures.append(Fail(f'magnitude-index-users|{type(e).__name__}|open', f'{type(e).__name__}: {e} grid={grid_desc}', rep))
    return evals


def named_edges(name):
    from csep.utils.constants import CSEP_MW_BINS
    from csep.core import regions
    if name == 'CSEP_MW_BINS':
        return numpy.asarray(CSEP_MW_BINS, dtype=float)
    rname, ax = name.rsplit('.', 1)
    if rname.startswith('global_'):
        reg = regions.global_region(dh=float(rname.split('_')[1]))
    else:
        reg = getattr(regions, rname)()
    return numpy.asarray(getattr(reg, ax), dtype=float)


def run_case(case):
    failures = []
    hsh = hashlib.sha1()
    evals = nontriv = states = 0
    counters = {}
    if case['kind'] == 'grid':
        start, step = case['start'], case['step']
        for n in case['ns']:
            ref = build_edges(dict(how='decimal', start=start, step=step, n=n))
            if not case.get('noisy'):
                hows = ('cleaner_range', 'magnitude_bins')
                if float(start).is_integer():
                    # the same grid with the start handed over as a Python int / numpy integer / numpy.float64
                    hows += ('cleaner_range[int-start]', 'magnitude_bins[int-start]', 'cleaner_range[int64-start]', 'cleaner_range[float64-start]')
                for how in hows:
                    desc = dict(how=how, start=start, step=step, n=n)
                    if n == 0:
                        continue   # a single edge is not produced by a range generator
                    try:
                        E = build_edges(desc)
                    except Exception as e:
                        failures.append(Fail(f'csep.utils.calc.cleaner_range|{type(e).__name__}|any', f'{type(e).__name__}: {e} {desc}',
                                             dict(kind='gen', **desc)))
                        continue
                    evals += 1
                    hsh.update(E.tobytes())
                    # history: the caller modifies the returned array in place, then asks for the same grid again
                    try:
                        E_first = E.copy()
                        E += 0.5 * step
                        E_again = build_edges(desc)
                        if E_again.shape != E_first.shape or not numpy.array_equal(E_again, E_first):
                            failures.append(Fail(f'csep.utils.calc.cleaner_range|second-call-returns-modified-edges|{how}',
                                                 f'{desc}: after the first result was shifted in place by the caller, a second call returned {E_again[:3].tolist()}.. instead of {E_first[:3].tolist()}..',
                                                 dict(kind='gen', **desc)))
                        E[:] = E_first       # restore the very object (it may be shared by a cache in the library)
                        E = E_first
                    except Exception as e:
                        failures.append(Fail(f'csep.utils.calc.cleaner_range|{type(e).__name__}|second-call', f'{type(e).__name__}: {e} {desc}', dict(kind='gen', **desc)))
                    if len(E) != n + 1:
                        failures.append(Fail(f'csep.utils.calc.cleaner_range|wrong-length|{how}',
                                             f'{desc}: {len(E)} edges, expected {n + 1}', dict(kind='gen', **desc)))
                    elif not numpy.array_equal(E, ref):
                        k = int(numpy.nonzero(E != ref)[0][0])
                        failures.append(Fail(f'csep.utils.calc.cleaner_range|edge-not-nearest-decimal|{how}',
                                             f'{desc}: edge[{k}]={E[k]!r}, float nearest to decimal start+k*step is {ref[k]!r}',
                                             dict(kind='gen', **desc)))
                    if how.startswith('cleaner_range') and '[' not in how and len(E) >= 1:
                        e, nt, st = run_grid(E, case['K'], desc, failures, hsh, forms=(n <= 100))
                        evals += e
                        nontriv += nt
                        states += st
            desc = dict(how='decimal', start=start, step=step, n=n)
            e, nt, st = run_grid(ref, case['K'], desc, failures, hsh, forms=(n <= 100))
            evals += e
            nontriv += nt
            states += st
            if n in (7, 31):
                evals += differential(ref, desc, failures, hsh)
        sample = dict(grid=dict(start=start, step=step, ns=case['ns']), K=case['K'],
                      first_edges=[float(x) for x in ref[:3]],
                      probe_example=[float(x) for x in floats.window(ref[0], 2)])
    elif case['kind'] == 'named':
        E = named_edges(case['name'])
        desc = dict(how='named', name=case['name'])
        e, nt, st = run_grid(E, case['K'], desc, failures, hsh, forms=True)
        evals += e
        nontriv += nt
        states += st
        if case['name'] == 'CSEP_MW_BINS':
            evals += differential(E, desc, failures, hsh)
        sample = dict(named=case['name'], n_edges=len(E), K=case['K'], first_edges=[float(x) for x in E[:3]])
    elif case['kind'] == 'order':
        from csep.utils.calc import bin1d_vec
        from mc import engine
        grids = {'f64-mag': numpy.array([floats.decimal_grid(5.95, 0.1, k) for k in range(31)]), 'int-depth': numpy.array([0, 10, 20, 30]),
                 'f32-mag': numpy.array([floats.decimal_grid(5.95, 0.1, k) for k in range(31)]).astype(numpy.float32)}

        def probes(name, pdt):
            E = grids[name].astype(float)
            if pdt == 'float64' and name != 'f32-mag':     # (single-precision edges carry a single-precision tolerance: mid-bin probes only)
                v = numpy.concatenate([E[1:] - d for d in (1e-6, 1e-8, 1e-10)] + [E[:-1] + 0.03])       # far outside any float64 tolerance
                want = numpy.concatenate([numpy.arange(len(E) - 1)] * 3 + [numpy.arange(len(E) - 1)])
            else:
                v = (E[:-1] + (E[1] - E[0]) / 2).astype(numpy.float32)                                    # mid-bin: clear in float32 too
                want = numpy.arange(len(E) - 1)
            return v, want
        combos = [(g, p) for g in grids for p in ('float64', 'float32')]
        for first in combos:
            for second in combos:
                engine._reset_library_state()            # each ordered pair starts from the state of a fresh process
                v1, _ = probes(*first)
                bin1d_vec(v1, grids[first[0]], right_continuous=True)
                v2, want = probes(*second)
                got = numpy.asarray(bin1d_vec(v2, grids[second[0]], right_continuous=True))
                evals += 1
                states += 1
                nontriv += 1
                hsh.update(got.tobytes())
                if not numpy.array_equal(got, want):
                    k = int(numpy.nonzero(got != want)[0][0])
                    failures.append(Fail('csep.utils.calc.bin1d_vec|result-depends-on-an-earlier-call-with-another-dtype|open',
                                         f'first call: {first[1]} points on {first[0]} edges; then {second[1]} points on {second[0]} edges: value {v2[k]!r} -> bin {int(got[k])}, expected {int(want[k])} '
                                         f'[{int((got != want).sum())} of {len(want)}]', dict(kind='order')))
        sample = dict(order_pairs=len(combos) ** 2)
    elif case['kind'] == 'intgrid':
        from csep.utils.calc import bin1d_vec
        start, step = case['start'], case['step']
        for n in (1, 7):
            E = numpy.array([start + k * step for k in range(n + 1)], dtype=numpy.int64)
            p = numpy.arange(start - 3 * step, start + (n + 4) * step, dtype=numpy.int64)
            for rc in (True, False):
                got = numpy.asarray(bin1d_vec(p, E, right_continuous=rc))
                hsh.update(got.tobytes())
                evals += len(p)
                states += len(p)
                nontriv += int(numpy.isin(p, E).sum())
                for pv, g in zip(p.tolist(), got.tolist()):
                    k = (pv - start) // step
                    if pv < start:
                        want = -1
                    elif rc:
                        want = min(k, n)
                    else:
                        want = k if k <= n else -1
                    if g != want:
                        failures.append(Fail(f'csep.utils.calc.bin1d_vec|integer-input-wrong-bin|{"open" if rc else "closed"}',
                                             f'int value {pv} on int edges {E.tolist()} -> {g}, expected {want}',
                                             dict(kind='intgrid', start=start, step=step)))
                        break
        sample = dict(intgrid=dict(start=start, step=step))
    elif case['kind'] == 'gen':
        desc = dict(how=case['how'], start=case['start'], step=case['step'], n=case['n'])
        ref = build_edges(dict(desc, how='decimal'))
        try:
            E = build_edges(desc)
            E0 = E.copy()
            E += 0.5 * case['step']
            E2 = build_edges(desc)
            if E2.shape != E0.shape or not numpy.array_equal(E2, E0):
                failures.append(Fail(f'csep.utils.calc.cleaner_range|second-call-returns-modified-edges|{case["how"]}', f'{desc}', case))
            E[:] = E0
            E = E0
            if len(E) != case['n'] + 1:
                failures.append(Fail(f'csep.utils.calc.cleaner_range|wrong-length|{case["how"]}', f'{desc}', case))
            elif not numpy.array_equal(E, ref):
                failures.append(Fail(f'csep.utils.calc.cleaner_range|edge-not-nearest-decimal|{case["how"]}', f'{desc}', case))
        except Exception as e:
            failures.append(Fail(f'csep.utils.calc.cleaner_range|{type(e).__name__}|any', f'{e}', case))
        evals = 1
        sample = case
    elif case['kind'] == 'single':
        g = case['grid']
        E = named_edges(g['name']) if g['how'] == 'named' else build_edges(g)
        v = numpy.array(case['values'], dtype=float)
        near = numpy.clip(numpy.searchsorted(E, v, side='right') - 1, 0, len(E) - 1)
        dt = None if not case.get('dtype') or case.get('dtype') == 'None' else numpy.dtype(case['dtype']).type
        judge_grid(E, v, near, case['mode'], failures, g, hsh, eps=EPS32 if dt is numpy.float32 else EPS,
                   as_dtype=dt, form=case['form'] if dt is None else '1d')
        differential(E, g, failures, hsh)
        evals = len(v)
        sample = case
    return result(evals=evals, states=states, transitions=evals, nontrivial=nontriv, failures=failures,
                  digest=hsh.hexdigest(), counters=counters, sample=sample)
