"""C20 Evaluation outcomes do not depend on storage order."""
import datetime
import hashlib
import itertools

import numpy

from mc import fixtures
from mc.engine import Fail, result

ID = 'C20'
RULE = ('region of 4 cells (2x2) x 2 magnitude bins; gridded forecasts = 4 rate arrays (distinct rates, one with a zero bin); '
        'observed catalogs = 5 multisets of 2..4 events; catalog forecasts = 4 sequences of J<=3 synthetic catalogs; for every '
        'input ALL permutations of the observed events (N<=4: up to 24), ALL permutations of the synthetic catalogs (J<=3) and '
        'ALL 24 permutations of the region cells together with the forecast rows (Cartesian regions built in memory, a quadtree region with observed events on shared tile edges, and forecasts loaded from generated files whose cell blocks are written in every order) are run through every public test (also with ONE catalog object re-bound to each cell order in turn, and with the two forecasts of a comparison storing the same cells in different orders) of '
        'poisson_evaluations (7), binomial_evaluations (4), brier_evaluations (1) and catalog_evaluations (6). A variant is '
        'non-trivial iff the permutation is not the identity; variants are distinct by construction.')
ASSUMPTIONS = ['observed statistics and analytic quantiles must agree to rounding (rtol 1e-12); simulation-free test distributions '
               'as sorted multisets; with a fixed seed, permuting the observed events must give bit-identical results',
               'permuting cells changes which random number maps to which cell, so simulated distributions are compared only '
               'under event permutations']

T0 = datetime.datetime(2010, 1, 1)
T1 = datetime.datetime(2010, 1, 11)
ORIGINS = [(0.0, 0.0), (0.1, 0.0), (0.0, 0.1), (0.1, 0.1)]
MAGS = [5.0, 6.0]
RATES = [
    [[0.25, 1.0], [4.0, 0.5], [2.0, 0.125], [1.5, 3.0]],
    [[1.0, 1.0], [1.0, 1.0], [1.0, 1.0], [1.0, 1.0]],
    [[0.3, 0.0], [1e-3, 2.0], [0.7, 0.2], [10.0, 0.1]],
    [[1e-9, 5.0], [0.5, 0.5], [3.0, 1e3], [0.25, 0.75]],
    # a mirrored pair with EQUAL totals: log-rate differences of exactly equal size and opposite sign about a zero median
    [[1.0, 2.0], [2.0, 1.0], [4.0, 0.5], [0.5, 4.0]],
    [[2.0, 1.0], [1.0, 2.0], [0.5, 4.0], [4.0, 0.5]],
]
# observed catalogs: list of (cell, bin)
OBS = [[(0, 0), (3, 1)], [(1, 0), (1, 0), (2, 1)], [(0, 0), (1, 1), (2, 0), (3, 1)], [(2, 1), (2, 1), (2, 0), (0, 1)], [(3, 0), (0, 0), (3, 0)]]
CFS = [
    [[(0, 0), (1, 1)], [(2, 0)], [(3, 1), (0, 0), (0, 1)]],
    [[(1, 0)], [], [(1, 0), (2, 1)]],
    [[(0, 0), (0, 0)], [(3, 1), (2, 0)]],
    [[(2, 1), (1, 0), (3, 0)], [(0, 1)], [(0, 1), (3, 0)]],
]


def cases(tier, seed):
    for oi in range(len(OBS)):
        yield dict(kind='gridded', f=4, g=5, o=oi)
    for fi in range(4):
        for oi in range(len(OBS)):
            yield dict(kind='gridded', f=fi, g=(fi + 1) % 4, o=oi)
    for ci in range(len(CFS)):
        for oi in range(len(OBS)):
            yield dict(kind='catalog', c=ci, o=oi)
    # the same permutation families on a quadtree region (events on shared tile edges) and on forecasts LOADED from
    # generated files whose cell blocks are written in every order
    for fi in range(4):
        for oi in range(len(QOBS)):
            yield dict(kind='gridded', f=fi, g=(fi + 1) % 4, o=oi, backend='quadtree')
        for oi in (0, 2, 3):
            yield dict(kind='gridded', f=fi, g=(fi + 1) % 4, o=oi, backend='file')
    if tier == 'quick':
        yield dict(kind='gridded', f=seed % 4, g=(seed + 2) % 4, o=seed % 5)     # a further forecast pairing selected by the seed
    else:
        for fi in range(len(RATES)):
            for gi in range(len(RATES)):
                if gi != (fi + 1) % len(RATES) and gi != fi:
                    yield dict(kind='gridded', f=fi, g=gi, o=2)


QKEYS = ['0', '1', '2', '3']
# quadtree observations: (lon, lat, magnitude bin); several lie exactly on an edge shared by two tiles
QPOS = [(-90.0, 45.0), (90.0, 45.0), (-90.0, -45.0), (90.0, -45.0), (0.0, 10.0), (-90.0, 0.0), (90.0, 0.0), (0.0, 0.0)]
QOBS = [[(0, 0), (3, 1)], [(4, 0), (5, 1), (1, 0)], [(6, 1), (7, 0), (2, 1), (5, 0)], [(5, 0), (5, 1), (6, 0)]]


def qregion(perm):
    from csep.core.regions import QuadtreeGrid2D
    return QuadtreeGrid2D.from_quadkeys([QKEYS[i] for i in perm], magnitudes=numpy.array(MAGS))


def qevents(pairs, base=0):
    return [(f'e{base + i}', 1262304000000 + 1000 * (base + i), QPOS[p][1], QPOS[p][0], 10.0, MAGS[k] + 0.5) for i, (p, k) in enumerate(pairs)]


def write_dat(path, rates, perm):
    with open(path, 'w') as fh:
        for i in perm:
            x0, y0 = ORIGINS[i]
            for k, m in enumerate(MAGS):
                fh.write('\t'.join([repr(x0), repr(round(x0 + 0.1, 10)), repr(y0), repr(round(y0 + 0.1, 10)), '0.0', '30.0', repr(m), repr(m + 1.0), repr(rates[i][k]), '1']) + '\n')


def region(perm):
    return fixtures.cartesian_region([ORIGINS[i] for i in perm], 0.1, magnitudes=MAGS)


def gfc(rates, perm, reg, name):
    data = numpy.array([rates[i] for i in perm], dtype=float)
    return fixtures.gridded_forecast(data, reg, MAGS, name=name, start=T0, end=T1)


def events(pairs, base=0):
    return [(f'e{base + i}', 1262304000000 + 1000 * (base + i), ORIGINS[c][1] + 0.05, ORIGINS[c][0] + 0.05, 10.0, MAGS[k] + 0.5)
            for i, (c, k) in enumerate(pairs)]


def obs_of(res):
    return dict(stat=fixtures.norm(res.observed_statistic), q=fixtures.norm(res.quantile), dist=fixtures.norm(res.test_distribution))


def gridded_tests():
    from csep.core import poisson_evaluations as pe, binomial_evaluations as be, brier_evaluations as br
    S = dict(num_simulations=5, seed=1)
    S0 = dict(num_simulations=5, seed=0)         # the smallest seed value is a seed like any other
    return [
        ('poisson_evaluations.likelihood_test[seed=0]', lambda f, g, c: pe.likelihood_test(f, c, **S0), 'sim'),
        ('poisson_evaluations.conditional_likelihood_test[seed=0]', lambda f, g, c: pe.conditional_likelihood_test(f, c, **S0), 'sim'),
        ('poisson_evaluations.spatial_test[seed=0]', lambda f, g, c: pe.spatial_test(f, c, **S0), 'sim'),
        ('poisson_evaluations.magnitude_test[seed=0]', lambda f, g, c: pe.magnitude_test(f, c, **S0), 'sim'),
        ('binomial_evaluations.binary_spatial_test[seed=0]', lambda f, g, c: be.binary_spatial_test(f, c, **S0), 'sim'),
        ('binomial_evaluations.binary_conditional_likelihood_test[seed=0]', lambda f, g, c: be.binary_conditional_likelihood_test(f, c, **S0), 'sim'),
        ('brier_evaluations.brier_score_test[seed=0]', lambda f, g, c: br.brier_score_test(f, c, **S0), 'sim'),
    ] + [
        ('poisson_evaluations.number_test', lambda f, g, c: pe.number_test(f, c), 'analytic'),
        ('poisson_evaluations.likelihood_test', lambda f, g, c: pe.likelihood_test(f, c, **S), 'sim'),
        ('poisson_evaluations.conditional_likelihood_test', lambda f, g, c: pe.conditional_likelihood_test(f, c, **S), 'sim'),
        ('poisson_evaluations.spatial_test', lambda f, g, c: pe.spatial_test(f, c, **S), 'sim'),
        ('poisson_evaluations.magnitude_test', lambda f, g, c: pe.magnitude_test(f, c, **S), 'sim'),
        ('poisson_evaluations.paired_t_test', lambda f, g, c: pe.paired_t_test(f, g, c), 'analytic'),
        ('poisson_evaluations.w_test', lambda f, g, c: pe.w_test(f, g, c), 'analytic'),
        ('binomial_evaluations.negative_binomial_number_test', lambda f, g, c: be.negative_binomial_number_test(f, c, 50.0), 'analytic'),
        ('binomial_evaluations.binary_spatial_test', lambda f, g, c: be.binary_spatial_test(f, c, **S), 'sim'),
        ('binomial_evaluations.binary_conditional_likelihood_test', lambda f, g, c: be.binary_conditional_likelihood_test(f, c, **S), 'sim'),
        ('binomial_evaluations.binary_paired_t_test', lambda f, g, c: be.binary_paired_t_test(f, g, c), 'analytic'),
        ('brier_evaluations.brier_score_test', lambda f, g, c: br.brier_score_test(f, c, **S), 'sim'),
    ]


def catalog_tests():
    from csep.core import catalog_evaluations as ce
    return [
        ('catalog_evaluations.number_test', lambda f, c: ce.number_test(f, c, verbose=False), 'free'),
        ('catalog_evaluations.spatial_test', lambda f, c: ce.spatial_test(f, c, verbose=False), 'free'),
        ('catalog_evaluations.magnitude_test', lambda f, c: ce.magnitude_test(f, c, verbose=False), 'free'),
        ('catalog_evaluations.pseudolikelihood_test', lambda f, c: ce.pseudolikelihood_test(f, c, verbose=False), 'free'),
        ('catalog_evaluations.resampled_magnitude_test', lambda f, c: ce.resampled_magnitude_test(f, c, seed=1), 'sim'),
        ('catalog_evaluations.MLL_magnitude_test', lambda f, c: ce.MLL_magnitude_test(f, c, seed=1), 'sim'),
        ('catalog_evaluations.resampled_magnitude_test[seed=0]', lambda f, c: ce.resampled_magnitude_test(f, c, seed=0), 'sim'),
        ('catalog_evaluations.MLL_magnitude_test[seed=0]', lambda f, c: ce.MLL_magnitude_test(f, c, seed=0), 'sim'),
    ]


def close(a, b):
    return fixtures.close(a, b, rtol=1e-12, atol=1e-13)


def call(fn, *a):
    try:
        r = fn(*a)
        return None if r is None else obs_of(r)
    except Exception as e:
        return dict(exc=f'{type(e).__name__}: {str(e)[:120]}')


def run_case(case):
    failures = []
    hsh = hashlib.sha1()
    evals = states = nontriv = 0
    numpy.random.seed(55555)
    ident = (0, 1, 2, 3)
    obs_pairs = OBS[case['o']]
    only = case.get('only')

    def report(site, what, kind_, detail, extra):
        failures.append(Fail(f'{site}|{what}|{kind_}' + ('' if case.get('backend', 'cartesian') == 'cartesian' else ',' + case['backend']), detail,
                             dict(case, only=dict(site=site, **extra))))

    if case['kind'] == 'gridded':
        rf, rg = RATES[case['f']], RATES[case['g']]
        tests = gridded_tests()
        base = {}
        backend = case.get('backend', 'cartesian')
        if backend == 'quadtree':
            obs_pairs = QOBS[case['o']]
            region_ = qregion
            events_ = qevents
            gfc_ = gfc
        elif backend == 'file':
            import csep
            import os as _os
            wd = fixtures.workdir()

            def region_(perm):
                return perm            # the region comes with the loaded forecast

            def gfc_(rates, perm, reg, name):
                path = _os.path.join(wd, f'c20_{_os.getpid()}_{name}.dat')
                write_dat(path, rates, perm)
                fc = csep.load_gridded_forecast(path, start_date=T0, end_date=T1, name=name)
                _os.remove(path)
                return fc
            events_ = events
        else:
            region_, events_, gfc_ = region, events, gfc

        def trio(perm, evs=None):
            reg = region_(perm)
            fa, fb = gfc_(rf, perm, reg, 'A'), gfc_(rg, perm, reg, 'B')
            r = fa.region if backend == 'file' else reg
            return fa, fb, fixtures.catalog(evs if evs is not None else events_(obs_pairs), region=r)
        reg0 = None
        for site, fn, kind_ in tests:
            base[site] = call(fn, *trio(ident))
            hsh.update(repr(base[site]).encode())
            evals += 1
        # (a) all permutations of the observed events
        for p in sorted(set(itertools.permutations(range(len(obs_pairs))))):
            ev = events_(obs_pairs)
            evp = [ev[i] for i in p]
            states += 1
            nontriv += (p != tuple(range(len(obs_pairs))))
            for site, fn, kind_ in tests:
                got = call(fn, *trio(ident, evp))
                evals += 1
                want = base[site]
                if 'exc' in (got or {}) or 'exc' in (want or {}):
                    if got != want:
                        report(site, 'exception-depends-on-event-order', 'events', f'{got} vs {want} perm={p}', dict(perm=list(p), what='events'))
                    continue
                if kind_ == 'sim':
                    if got != want:
                        report(site, 'seeded-result-changes-with-observed-event-order', 'events', f'perm {p}: {str(got)[:200]} vs {str(want)[:200]}', dict(perm=list(p), what='events'))
                elif not (close(got['stat'], want['stat']) and close(got['q'], want['q'])):
                    report(site, 'statistic-changes-with-observed-event-order', 'events', f'perm {p}: {got} vs {want}', dict(perm=list(p), what='events'))
        # (b) all permutations of the cells, forecast rows permuted consistently
        for perm in itertools.permutations(range(4)):
            states += 1
            nontriv += (perm != ident)
            for site, fn, kind_ in tests:
                got = call(fn, *trio(perm))
                evals += 1
                want = base[site]
                if 'exc' in (got or {}) or 'exc' in (want or {}):
                    if got != want:
                        report(site, 'exception-depends-on-cell-order', 'cells', f'{got} vs {want} perm={perm}', dict(perm=list(perm), what='cells'))
                    continue
                ok = close(got['stat'], want['stat'])
                if kind_ == 'analytic':
                    ok = ok and close(got['q'], want['q']) and close(got['dist'], want['dist'])
                if not ok:
                    report(site, 'statistic-changes-with-cell-order', 'cells', f'cell perm {perm}: stat {got["stat"]} q {got["q"]} vs stat {want["stat"]} q {want["q"]}', dict(perm=list(perm), what='cells'))
        if backend == 'cartesian':
            # (d) ONE catalog object across all cell orders: after each evaluation its region is replaced by the same cells in
            #     another order (the evaluations themselves re-bind observed_catalog.region like this)
            shared = fixtures.catalog(events_(obs_pairs), region=region_(ident))
            for site, fn, kind_ in tests:
                call(fn, gfc_(rf, ident, shared.region, 'A'), gfc_(rg, ident, shared.region, 'B'), shared)
            for perm in itertools.permutations(range(4)):
                reg = region_(perm)
                shared.region = reg
                states += 1
                nontriv += (perm != ident)
                for site, fn, kind_ in tests:
                    got = call(fn, gfc_(rf, perm, reg, 'A'), gfc_(rg, perm, reg, 'B'), shared)
                    evals += 1
                    want = base[site]
                    if 'exc' in (got or {}) or 'exc' in (want or {}):
                        if got != want:
                            report(site, 'exception-after-rebinding-the-catalog-region', 'cells,shared-catalog', f'{got} vs {want} perm={perm}', dict(perm=list(perm), what='shared'))
                        continue
                    ok = close(got['stat'], want['stat']) and (kind_ != 'analytic' or (close(got['q'], want['q']) and close(got['dist'], want['dist'])))
                    if not ok:
                        report(site, 'statistic-changes-when-the-same-catalog-is-rebound-to-reordered-cells', 'cells,shared-catalog',
                               f'cell perm {perm}: stat {got["stat"]} q {got["q"]} vs stat {want["stat"]} q {want["q"]}', dict(perm=list(perm), what='shared'))
            # (e) the two forecasts of a comparison store the SAME cells in DIFFERENT orders (each consistent with its own region)
            pair_tests = [t for t in tests if t[0].rsplit('.', 1)[1] in ('paired_t_test', 'w_test', 'binary_paired_t_test')]
            # (f) ONE benchmark forecast and ONE catalog object: compared once, then the catalog's events are re-ordered IN PLACE
            #     (catalog.catalog = catalog.catalog[perm]) and the same benchmark is compared with a fresh forecast
            for p in sorted(set(itertools.permutations(range(len(obs_pairs))))):
                reg = region_(ident)
                bench = gfc_(rg, ident, reg, 'B')
                cat = fixtures.catalog(events_(obs_pairs), region=reg)
                states += 1
                nontriv += 1
                for site, fn, kind_ in pair_tests:
                    call(fn, gfc_(rf, ident, reg, 'A'), bench, cat)
                cat.catalog = cat.catalog[list(p)]
                for site, fn, kind_ in pair_tests:
                    got = call(fn, gfc_(rf, ident, reg, 'A2'), bench, cat)
                    evals += 1
                    want = base[site]
                    if 'exc' in (got or {}) or 'exc' in (want or {}):
                        if got != want:
                            report(site, 'exception-after-reordering-the-catalog-in-place', 'events,reused-benchmark', f'{got} vs {want} perm={p}', dict(perm=list(p), what='inplace'))
                        continue
                    if not (close(got['stat'], want['stat']) and close(got['q'], want['q']) and close(got['dist'], want['dist'])):
                        report(site, 'statistic-changes-when-the-catalog-is-reordered-in-place-between-comparisons', 'events,reused-benchmark',
                               f'event perm {p}: stat {got["stat"]} q {got["q"]} dist {got["dist"]} vs stat {want["stat"]} q {want["q"]} dist {want["dist"]}', dict(perm=list(p), what='inplace'))
            for perm in itertools.permutations(range(4)):
                for which in ('benchmark-reordered', 'forecast-reordered'):
                    pa, pb = (ident, perm) if which == 'benchmark-reordered' else (perm, ident)
                    ra_, rb_ = region_(pa), region_(pb)
                    states += 1
                    nontriv += (perm != ident)
                    for site, fn, kind_ in pair_tests:
                        got = call(fn, gfc_(rf, pa, ra_, 'A'), gfc_(rg, pb, rb_, 'B'), fixtures.catalog(events_(obs_pairs), region=ra_))
                        evals += 1
                        want = base[site]
                        if 'exc' in (got or {}) or 'exc' in (want or {}):
                            if got != want:
                                report(site, 'exception-when-the-two-forecasts-store-cells-in-different-orders', 'cells,' + which, f'{got} vs {want} perm={perm}', dict(perm=list(perm), what=which))
                            continue
                        if not (close(got['stat'], want['stat']) and close(got['q'], want['q']) and close(got['dist'], want['dist'])):
                            report(site, 'statistic-changes-when-the-two-forecasts-store-cells-in-different-orders', 'cells,' + which,
                                   f'cell perm {perm} ({which}): stat {got["stat"]} q {got["q"]} vs stat {want["stat"]} q {want["q"]}', dict(perm=list(perm), what=which))
    else:
        from csep.core.forecasts import CatalogForecast
        cf = CFS[case['c']]
        tests = catalog_tests()

        def mk(reg, order, cellperm=ident, form='list', catreg=None):
            cats = [fixtures.catalog(events(cf[j], 10 * j), region=(catreg if catreg is not None else reg), catalog_id=n) for n, j in enumerate(order)]
            given = {'list': cats, 'iter': iter(cats), 'gen': (c for c in cats), 'tuple': tuple(cats), 'gen-small-hint': (c for c in cats)}[form]
            # gen-small-hint: the caller announces one catalog fewer than the stream delivers (every delivered catalog counts)
            return CatalogForecast(catalogs=given, n_cat=(len(cats) - 1 if form == 'gen-small-hint' and len(cats) > 1 else len(cats)), region=reg, name='cf')
        reg0 = region(ident)
        base = {}
        J = len(cf)
        for site, fn, kind_ in tests:
            base[site] = call(fn, mk(reg0, range(J)), fixtures.catalog(events(obs_pairs, 500), region=reg0))
            hsh.update(repr(base[site]).encode())
            evals += 1

        def cmp(site, kind_, got, want, label, perm, compare_dist):
            if got is None or want is None:
                if got != want:
                    report(site, f'result-presence-changes-with-{label}-order', label, f'{got} vs {want}', dict(perm=list(perm), what=label))
                return
            if 'exc' in got or 'exc' in want:
                if got != want:
                    report(site, f'exception-depends-on-{label}-order', label, f'{got} vs {want}', dict(perm=list(perm), what=label))
                return
            ok = close(got['stat'], want['stat'])
            if kind_ == 'free':
                ok = ok and close(got['q'], want['q'])
                if compare_dist:
                    ok = ok and close(sorted(map(repr, got['dist'])) and sorted(got['dist'], key=repr), sorted(want['dist'], key=repr))
            elif compare_dist == 'exact':
                ok = (got == want)
            if not ok:
                report(site, f'result-changes-with-{label}-order', label, f'perm {perm}: {str(got)[:220]} vs {str(want)[:220]}', dict(perm=list(perm), what=label))
        # (c) all permutations of the synthetic catalogs
        for p in itertools.permutations(range(J)):
            states += 1
            nontriv += (p != tuple(range(J)))
            for site, fn, kind_ in tests:
                got = call(fn, mk(reg0, p), fixtures.catalog(events(obs_pairs, 500), region=reg0))
                evals += 1
                cmp(site, kind_, got, base[site], 'synthetic-catalog', p, True)
        # (c') the synthetic catalogs handed over as a one-shot iterator, a generator expression, a tuple (every order)
        for form in ('iter', 'gen', 'tuple', 'gen-small-hint'):
            for p in itertools.permutations(range(J)):
                states += 1
                nontriv += 1
                for site, fn, kind_ in tests:
                    got = call(fn, mk(reg0, p, form=form), fixtures.catalog(events(obs_pairs, 500), region=reg0))
                    evals += 1
                    before = len(failures)
                    cmp(site, kind_, got, base[site], 'synthetic-catalog', p, True)
                    for f in failures[before:]:
                        f['signature'] += f',catalogs-given-as-{form}'
        # (a) all permutations of the observed events (seeded tests must be bit-identical)
        for p in sorted(set(itertools.permutations(range(len(obs_pairs))))):
            ev = events(obs_pairs, 500)
            states += 1
            nontriv += (p != tuple(range(len(obs_pairs))))
            for site, fn, kind_ in tests:
                got = call(fn, mk(reg0, range(J)), fixtures.catalog([ev[i] for i in p], region=reg0))
                evals += 1
                cmp(site, kind_, got, base[site], 'event', p, 'exact' if kind_ == 'sim' else True)
        # (b) all permutations of the cells
        for perm in itertools.permutations(range(4)):
            reg = region(perm)
            states += 1
            nontriv += (perm != ident)
            for site, fn, kind_ in tests:
                got = call(fn, mk(reg, range(J)), fixtures.catalog(events(obs_pairs, 500), region=reg))
                evals += 1
                cmp(site, kind_, got, base[site], 'cell', perm, kind_ == 'free')
                # the synthetic catalogs already carry a region of their own: the same cells in the ORIGINAL order
                got = call(fn, mk(reg, range(J), catreg=region(ident)), fixtures.catalog(events(obs_pairs, 500), region=reg))
                evals += 1
                before = len(failures)
                cmp(site, kind_, got, base[site], 'cell', perm, kind_ == 'free')
                for f in failures[before:]:
                    f['signature'] += ',catalogs-bound-to-another-cell-order'
    if only:
        failures = [f for f in failures if f['signature'].startswith(only['site'] + '|')] or failures
    seen, uniq = set(), []
    for f in failures:
        if f['signature'] not in seen:
            seen.add(f['signature'])
            uniq.append(f)
    return result(evals=evals, states=states, transitions=evals, nontrivial=nontriv, failures=uniq, digest=hsh.hexdigest(),
                  sample=dict(case=case, observed=obs_pairs))
