"""C14 Catalog persistence round trips preserve every event.

write_ascii -> csep.load_catalog, to_dict -> from_dict, write_json -> load_json / csep.load_catalog,
to_dataframe -> from_dataframe, each on every catalog of a stated finite space; the oracle is the identity.
"""
import contextlib
import hashlib
import itertools
import os
import traceback

from mc import floats, space
from mc.engine import Fail, VERIF, result
from mc.ref import ref_roundtrip as ref

ID = 'C14'
RULE = ('catalogs of 0..3 events (thorough: 0..4) over per-attribute alphabets (id, origin time in ms, latitude, '
        'longitude, depth, magnitude): the empty catalog; one base event; each attribute swept over its whole alphabet '
        'with the others at base values (ids additionally: every printable ASCII character alone and embedded); all '
        'pairs of attributes on reduced alphabets; every sequence (all orderings, repetitions allowed) of 2..3 of five '
        'profile events; origin times additionally as single-event catalogs at every millisecond phase of four seconds '
        'and on complete +-2000 ms windows around six instants of 1900..2200 (thorough: +-20000). Every catalog goes '
        'through every format configuration: ASCII (header on/off, append to a new file, append of / to a second '
        'catalog or an empty one, region absent/bound), dict and JSON file (region absent / 2x2 / L-shaped, two names, '
        'both JSON loaders), DataFrame (with/without datetime index; region-bound for catalogs inside the region); '
        'integer catalog id in {0, 7}. A catalog is non-trivial iff it is empty, or is not in time order, or repeats an '
        'event, or some event has a non-alphanumeric / all-digit / >=255-character id, a time before 1970, after '
        '2038-01-19 or off a whole second, a float needing >=16 significant digits, |lat| = 90, |lon| >= 180-ulp, or a '
        'negative depth or magnitude. Catalogs are distinct by construction (deduplicated by their event tuples).')
ASSUMPTIONS = [
    'oracle = identity on (id, origin_time, latitude, longitude, depth, magnitude) per event, count and order; the '
    'expected values are the input tuples (the harness asserts that the source catalog stores them unchanged)',
    'catalog id is demanded wherever the format can carry it: dict/JSON always, ASCII/DataFrame when at least one '
    'event row exists; name and region to_dict() are demanded after dict/JSON only; the rebuilt region must index a '
    'probe set identically to the original',
    'append with write_header=True onto a file that already has content writes a header line in mid-file; the property '
    'text does not say what loading such a file must give: executed, recorded, not judged (ambiguous_skipped)',
    'DataFrame with a bound region is only exercised with events inside the region (to_dataframe indexes the events '
    'in the region; events outside are a precondition violation of get_index_of, not of persistence)',
    'ids are non-empty printable ASCII (0x20..0x7e) of at most 256 characters; NaN, -0.0 and infinities are not in '
    'the alphabets; values between alphabet letters are not explored',
    'truncation_model (int(1000.0 * total_seconds)) is used only to label an observed 1 ms time difference with the '
    'signature owned by C15; it never makes a difference acceptable',
]

PAIR = {'ascii': 'csep.core.catalogs.write_ascii->load_catalog',
        'dict': 'csep.core.catalogs.to_dict->from_dict',
        'json': 'csep.core.catalogs.write_json->load_json',
        'df': 'csep.core.catalogs.to_dataframe->from_dataframe'}

# ----------------------------------------------------------------------------- alphabets
T1900 = ref.ms_of(1900, 1, 1)
T2201 = ref.ms_of(2201, 1, 1)
BASE = ['a', ref.ms_of(2010, 1, 1), 35.5, -117.25, 10.0, 4.5]
PB = ['pb', 1500000000000, 12.5, 45.25, 5.0, 6.25]          # the "second catalog" of the append modes

IDS = ['a', 'a,b', 'q"x', 's p;c', "x'y", ' lead', '0', '12', 'trail ', '"', ',', ' ', 'lon', 'A' * 255]
IDS_T = ['B' * 256, '  two', '""', 'a,"b",c', 'None', '-1', '1e5', "'", 'x\\y', '#c']
PRINTABLE = [chr(c) for c in range(0x20, 0x7f)]
TIMES = [-1097606850620, 2162263957055, -1, 0, 1, 1001, 951782400123, T1900, ref.ms_of(2200, 1, 1),
         ref.ms_of(2038, 1, 19, 3, 14, 8), ref.ms_of(2100, 1, 1, milli=999)]
LATS = [-90.0, 90.0, 0.0, 0.30000000000000004, 1e-7, 35.123456789012344, 89.99999999999999, -89.99999999999999]
LONS = [-180.0, 180.0, 179.99999999999997, -179.99999999999997, 0.0, 0.30000000000000004, 1e-7, -117.12345678901234]
DEPTHS = [0.0, -1.5, 700.0, 1e-3]
DEPTHS_T = [6371.0, 1e22, 123.45678901234568, 5e-324, 1.7976931348623157e308]
MAGS = [-1.0, 0.0, 5.95, 9.5, 6.050000000000001]
MAGS_T = [6.05, 6.049999999999999, 1e-10, 2.0000000000000004]
ALPHA = {0: IDS, 1: TIMES, 2: LATS, 3: LONS, 4: DEPTHS, 5: MAGS}
REDUCED = {0: ['a,b', 'q"x', ' lead', '12'], 1: [-1097606850620, -1, 951782400123, ref.ms_of(2100, 1, 1, milli=999)],
           2: [-90.0, 0.30000000000000004, 35.123456789012344], 3: [179.99999999999997, 1e-7, -117.12345678901234],
           4: [-1.5, 1e-3, 700.0], 5: [-1.0, 5.95, 6.050000000000001]}
PROFILES = [BASE,
            ['a,b', -1097606850620, -90.0, 179.99999999999997, 0.0, -1.0],
            [' lead', ref.ms_of(2100, 1, 1, milli=999), 0.30000000000000004, 1e-7, 1e-3, 5.95],
            ['q"x', -1, 89.99999999999999, -180.0, 700.0, 6.050000000000001],
            ['12', 951782400123, 1e-7, -117.12345678901234, -1.5, 9.5]]
INSIDE = [['in1', 1300000000250, 0.05, 0.15, 3.0, 4.5], ['in,2', -86400001, 0.1, 0.0, 0.0, 5.0],
          ['in3', ref.ms_of(2150, 6, 1, milli=7), 0.15, 0.05, 12.0, 6.5]]
NAMES = ['cat', 'n,"q"; x']

REGIONS = {'R1': dict(origins=[[0.0, 0.0], [0.1, 0.0], [0.0, 0.1], [0.1, 0.1]], dh=0.1, name='c14-2x2', magnitudes=None),
           'R2': dict(origins=[[0.0, 0.0], [0.1, 0.0], [0.0, 0.1]], dh=0.1, name='c14 L, "shaped"', magnitudes=None),
           'R1m': dict(origins=[[0.0, 0.0], [0.1, 0.0], [0.0, 0.1], [0.1, 0.1]], dh=0.1, name='c14-2x2-mags',
                       magnitudes=[4.0, 5.0, 6.0])}

PHASE_SECONDS = [ref.ms_of(1935, 3, 22, 5, 12, 29), ref.ms_of(1999, 12, 31, 23, 59, 59),
                 ref.ms_of(2024, 2, 29, 12, 0, 0), ref.ms_of(2038, 7, 9, 4, 52, 37)]
PHASE_SECONDS_T = [ref.ms_of(1900, 1, 1, 0, 0, 1), ref.ms_of(1969, 12, 31, 23, 59, 58), ref.ms_of(2199, 12, 31, 23, 59, 59),
                   ref.ms_of(1960, 5, 22, 19, 11, 14)]
ANCHORS = [T1900, 0, ref.ms_of(2000, 2, 29), ref.ms_of(2038, 1, 19, 3, 14, 8), ref.ms_of(2200, 1, 1)]   # -1 is inside 0's window
SEED_ANCHORS = [ref.ms_of(1969, 12, 31, 23, 59, 0), ref.ms_of(2100, 1, 1), ref.ms_of(1935, 3, 22, 5, 12, 29),
                ref.ms_of(2162, 7, 9, 4, 52, 37)]


# ----------------------------------------------------------------------------- format configurations
def _full_configs():
    cfgs = []
    for reg in (None, 'R1', 'R2'):
        for cid in (0, 7):
            for name in NAMES:
                cfgs.append(dict(fmt='dict', cid=cid, region=reg, name=name))
    for h in (True, False):
        for cid in (0, 7):
            for reg in (None, 'R1'):
                cfgs.append(dict(fmt='ascii', mode='plain', header=h, cid=cid, region=reg))
    for mode in ('append-new', 'X+PB', 'PB+X', 'E+X', 'X+E'):
        for h in (True, False):
            for cid in (0, 7):
                cfgs.append(dict(fmt='ascii', mode=mode, header=h, cid=cid, region=None))
    for h in (True, False):
        cfgs.append(dict(fmt='ascii', mode='X+PB/header-repeated', header=h, cid=7, region=None))  # not judged
    for loader in ('CSEPCatalog.load_json', 'csep.load_catalog'):
        for reg in (None, 'R1', 'R2'):
            for cid in (0, 7):
                for name in NAMES:
                    cfgs.append(dict(fmt='json', loader=loader, cid=cid, region=reg, name=name))
    for wd in (False, True):
        for cid in (0, 7):
            cfgs.append(dict(fmt='df', with_datetime=wd, cid=cid, region=None))
    return cfgs


FULL = _full_configs()
TIME = [c for c in FULL if
        (c['fmt'] == 'ascii' and c['mode'] == 'plain' and c['region'] is None and (c['header'], c['cid']) in ((True, 0), (False, 7)))
        or (c['fmt'] == 'dict' and c['region'] is None and c['cid'] == 0 and c['name'] == NAMES[0])
        or (c['fmt'] == 'json' and c['region'] is None and c['cid'] == 7 and c['name'] == NAMES[1]
            and c['loader'] == 'CSEPCatalog.load_json')
        or (c['fmt'] == 'df' and (c['with_datetime'], c['cid']) in ((False, 0), (True, 7)))]
DFREGION = [dict(fmt='df', with_datetime=wd, cid=cid, region=reg)
            for reg in ('R1m', 'R1') for wd in (False, True) for cid in (0, 7)]
# integer catalog ids beyond 2**31 and 2**53 (not exactly representable as a double), every format once
BIGIDS = [2 ** 31, 123456789012, 2 ** 53 + 1, 1562383355630123457, 2 ** 63 - 1, -2, -2019, -(2 ** 40)]
BIGID = ([dict(fmt='dict', cid=c, region=None, name=NAMES[0]) for c in BIGIDS]
         + [dict(fmt='ascii', mode='plain', header=h, cid=c, region=None) for c in BIGIDS for h in (True, False)]
         + [dict(fmt='ascii', mode='append-new', header=True, cid=c, region=None) for c in BIGIDS]
         + [dict(fmt='json', loader=l, cid=c, region=None, name=NAMES[0]) for c in BIGIDS for l in ('CSEPCatalog.load_json', 'csep.load_catalog')]
         + [dict(fmt='df', with_datetime=wd, cid=c, region=None) for c in BIGIDS for wd in (False, True)])
CONFIGS = {'bigid': BIGID, 'full': FULL, 'time': TIME, 'dfregion': DFREGION, 'full+dfregion': FULL + DFREGION}


# ----------------------------------------------------------------------------- enumeration
def _with(i, v):
    e = list(BASE)
    e[i] = v
    return e


def _window(lo, hi):
    return range(max(lo, T1900), min(hi, T2201 - 1) + 1)


def small_catalogs(tier):
    """(family, catalog) simplest first; deduplicated by the caller."""
    thorough = tier == 'thorough'
    yield 'empty', []
    yield 'base', [BASE]
    alpha = {k: list(v) for k, v in ALPHA.items()}
    if thorough:
        alpha[0] += IDS_T
        alpha[4] += DEPTHS_T
        alpha[5] += MAGS_T
        for k, lim in ((2, 90.0), (3, 180.0), (4, None), (5, None)):
            extra = []
            for v in alpha[k]:
                for w in floats.window(v, 2):
                    w = float(w)
                    if (lim is None or abs(w) <= lim) and w == w and abs(w) != float('inf') and repr(w) != '-0.0':
                        extra.append(w)
            alpha[k] += extra
    for i in range(6):
        for v in alpha[i]:
            yield 'sweep-' + ref.FIELDS[i], [_with(i, v)]
    for ch in PRINTABLE:
        yield 'id-printable', [_with(0, ch)]
        yield 'id-printable', [_with(0, 'x' + ch + 'y')]
    if thorough:
        for ch in PRINTABLE:
            yield 'id-printable', [_with(0, ch + 'y')]
            yield 'id-printable', [_with(0, 'x' + ch)]
    for i, j in itertools.combinations(range(6), 2):
        for vi in REDUCED[i]:
            for vj in REDUCED[j]:
                e = list(BASE)
                e[i], e[j] = vi, vj
                yield 'pairs', [e]
    for seq in space.sequences(PROFILES, 2, 4 if thorough else 3):
        yield 'multi', [list(e) for e in seq]


def inside_catalogs():
    yield []
    for n in (1, 2, 3):
        for seq in itertools.permutations(INSIDE, n):
            yield [list(e) for e in seq]


def time_values(tier, seed):
    """(family, [ms...]) blocks, each complete."""
    thorough = tier == 'thorough'
    for s in PHASE_SECONDS + (PHASE_SECONDS_T if thorough else []):
        yield 'time-phase', list(range(s, s + 1000))
    for a in ANCHORS:
        yield 'time-window', list(_window(a - 2000, a + 2000))
    if thorough:
        for a in SEED_ANCHORS:
            yield 'time-window-seed', list(_window(a - 2000, a + 2000))
        for a in ANCHORS:
            yield 'time-window-wide', list(_window(a - 20000, a + 20000))
    else:
        a = SEED_ANCHORS[seed % len(SEED_ANCHORS)]
        yield 'time-window-seed', list(_window(a - 2000, a + 2000))


def _key(cat):
    return tuple(tuple(e) for e in cat)


def cases(tier, seed):
    yield from space.with_time_zones(_cases(tier, seed), 12)


def _cases(tier, seed):
    seen = set()
    # small families, full configuration set
    groups = []
    for fam, cat in small_catalogs(tier):
        k = _key(cat)
        if k in seen:
            continue
        seen.add(k)
        if groups and groups[-1][0] == fam:
            groups[-1][1].append(cat)
        else:
            groups.append((fam, [cat]))
    for fam, cats in groups:
        for chunk in space.chunks(cats, 5):
            yield dict(kind='batch', family=fam, configs='full', catalogs=chunk)
    inside = []
    for cat in inside_catalogs():
        k = _key(cat)
        if k in seen:
            continue
        seen.add(k)
        inside.append(cat)
    for chunk in space.chunks(inside, 4):
        yield dict(kind='batch', family='inside-region', configs='full+dfregion', catalogs=chunk)
    # large integer catalog ids on the first few catalogs of the enumeration (0, 1 and 2 events)
    yield dict(kind='batch', family='large-catalog-id', configs='bigid', catalogs=[c for _, c in list(small_catalogs(tier))[:6]])
    # the empty catalog once more, but only under the region-bound DataFrame configurations
    yield dict(kind='batch', family='inside-region', configs='dfregion', catalogs=[[]])
    # origin-time sweep: single-event catalogs
    for fam, values in time_values(tier, seed):
        wide = fam == 'time-window-wide'
        cfgname = 'full' if (tier == 'thorough' and not wide) else 'time'
        fresh = []
        for t in values:
            k = _key([_with(1, t)])
            if k in seen:
                continue
            seen.add(k)
            fresh.append(t)
        for chunk in space.chunks(fresh, 100 if cfgname == 'time' else 12):
            yield dict(kind='times', family=fam, configs=cfgname, times=chunk)


# ----------------------------------------------------------------------------- harness
def _strip(d):
    """What a caller may do with a dictionary it was handed: drop the bulky members, relabel."""
    if not isinstance(d, dict):
        return
    for k in list(d):
        v = d[k]
        if isinstance(v, dict):
            _strip(v)
            v.clear()
        elif isinstance(v, list):
            del v[:]
    d.clear()


_REGION_OBJ = {}
_REGION_PROBE = {}


def _region(key):
    if key is None:
        return None
    if key not in _REGION_OBJ:
        import numpy
        from csep.core.regions import CartesianGrid2D
        spec = REGIONS[key]
        mags = None if spec['magnitudes'] is None else numpy.array(spec['magnitudes'])
        _REGION_OBJ[key] = CartesianGrid2D.from_origins(numpy.array(spec['origins']), dh=spec['dh'], magnitudes=mags,
                                                        name=spec['name'])
    return _REGION_OBJ[key]


def _probe(region, key):
    out = []
    for lon, lat in ref.region_probes(REGIONS[key]):
        try:
            out.append(int(region.get_index_of([lon], [lat])[0]))
        except ValueError:
            out.append('outside')
    return out


def _scratch():
    d = os.path.join(VERIF, '.work', str(os.getpid()))
    os.makedirs(d, exist_ok=True)
    return d


def _rm(path):
    try:
        os.remove(path)
    except FileNotFoundError:
        pass


def _build(events, cid, name, region_key):
    """Source catalog; asserts (harness precondition) that it stores the input tuples unchanged."""
    from csep.core.catalogs import CSEPCatalog
    cat = CSEPCatalog(data=[tuple(e) for e in events], catalog_id=cid, name=name, region=_region(region_key))
    stored = _events_of(cat)
    assert stored == ref.as_tuples(events), f'source catalog does not store its input: {stored} vs {events}'
    return cat


def _events_of(cat):
    out = []
    for row in cat.catalog.tolist():
        row = list(row)
        if isinstance(row[0], bytes):
            row[0] = row[0].decode('utf-8', errors='backslashreplace')
        out.append(tuple(row))
    return out


def _site(exc, default):
    """module.function of the innermost frame of the traceback that lies in the csep package."""
    site = default
    for fr in traceback.extract_tb(exc.__traceback__):
        parts = os.path.normpath(fr.filename).split(os.sep)
        if 'csep' in parts and 'site-packages' not in parts:
            i = len(parts) - 1 - parts[::-1].index('csep')
            mod = '.'.join(parts[i:])[:-3] if parts[-1].endswith('.py') else '.'.join(parts[i:])
            if mod.endswith('.__init__'):
                mod = mod[:-9]
            site = mod + '.' + fr.name
    return site


class _LibError(Exception):
    def __init__(self, stage, exc):
        self.stage, self.exc = stage, exc


def _lib(stage, fn):
    """Run one library call; library exceptions become _LibError (judged), nothing else is caught."""
    try:
        return fn()
    except Exception as e:   # noqa: the library call is the only thing inside this try
        raise _LibError(stage, e)


def _expected(events, cfg):
    mode = cfg.get('mode', 'plain')
    if mode in ('X+PB', 'X+PB/header-repeated'):
        return [events, [PB]]
    if mode == 'PB+X':
        return [[PB], events]
    if mode == 'E+X':
        return [[], events]
    if mode == 'X+E':
        return [events, []]
    return [events]


def roundtrip(events, cfg):
    """Execute one round trip on the real implementation.
    Returns (observation, failures[(signature, detail)], n_library_calls, judged)."""
    import csep
    from csep.core.catalogs import CSEPCatalog
    fmt = cfg['fmt']
    pair = PAIR[fmt]
    parts = _expected(events, cfg)
    exp_events = ref.as_tuples([e for p in parts for e in p])
    name = cfg.get('name', 'cat')
    cid = cfg['cid']
    calls = 0
    text = None
    path = None
    judged = cfg.get('mode') != 'X+PB/header-repeated'
    cls = 'empty-catalog' if not exp_events else 'non-empty-catalog'
    if fmt == 'df' and cfg['region'] is not None and not REGIONS[cfg['region']]['magnitudes']:
        cls = 'region-without-magnitudes'
    try:
        srcs = [_build(p, cid, name, cfg['region']) for p in parts]
        if fmt == 'ascii':
            path = os.path.join(_scratch(), 'c14.csv')
            _rm(path)
            mode = cfg['mode']
            for k, src in enumerate(srcs):
                calls += 1
                if k == 0:
                    kw = dict(write_header=cfg['header'])
                    if mode == 'append-new':
                        kw['append'] = True
                else:
                    kw = dict(write_header=(mode == 'X+PB/header-repeated'), append=True)
                _lib('write_ascii', lambda: src.write_ascii(path, **kw))
            with open(path, 'r', newline='') as fh:
                text = fh.read()
            calls += 1
            loaded = _lib('load_catalog', lambda: csep.load_catalog(path))
        elif fmt == 'dict':
            calls += 2
            # history: an EARLIER dictionary of the same catalog was taken and edited by the caller (a summary without the
            # polygons, another name); the dictionary taken afterwards must still describe the catalog
            d0 = _lib('to_dict', lambda: srcs[0].to_dict())
            _strip(d0)
            d = _lib('to_dict', lambda: srcs[0].to_dict())
            # history: the SAME dictionary object is loaded twice; the second load is the one judged (a loader that
            # consumes or alters its argument shows here), and the first must agree with it
            first = _lib('from_dict', lambda: CSEPCatalog.from_dict(d))
            loaded = _lib('from_dict', lambda: CSEPCatalog.from_dict(d))
            ev1 = _lib('read-back', lambda: _events_of(first))
            ev2 = _lib('read-back-of-second-load-from-the-same-dict', lambda: _events_of(loaded))
            if ev1 != ev2:
                raise _LibError('from_dict-second-load-differs', ValueError(
                    f'first load from the dictionary has {len(ev1)} events, second load from the same dictionary {len(ev2)}'))
        elif fmt == 'json':
            path = os.path.join(_scratch(), 'c14.json')
            _rm(path)
            calls += 2
            d0 = _lib('to_dict', lambda: srcs[0].to_dict())
            _strip(d0)                      # same history before the JSON form is written
            _lib('write_json', lambda: srcs[0].write_json(path))
            if cfg['loader'] == 'csep.load_catalog':
                loaded = _lib('load_catalog', lambda: csep.load_catalog(path))
            else:
                loaded = _lib('load_json', lambda: CSEPCatalog.load_json(path))
        elif fmt == 'df':
            calls += 2
            df = _lib('to_dataframe', lambda: srcs[0].to_dataframe(with_datetime=cfg['with_datetime']))
            loaded = _lib('from_dataframe', lambda: CSEPCatalog.from_dataframe(df))
        else:
            raise AssertionError(fmt)
        obs_events = _lib('read-back', lambda: _events_of(loaded))
        got_cid = loaded.catalog_id
        obs = dict(events=obs_events, cid=repr(got_cid), count=int(loaded.event_count),
                   cid_ok=bool(got_cid is not None and not isinstance(got_cid, (str, bytes, bool)) and got_cid == cid))
        if fmt in ('dict', 'json'):
            obs['name'] = loaded.name
            if cfg['region'] is not None and loaded.region is not None:
                obs['region'] = _lib('region.to_dict', lambda: loaded.region.to_dict())
                obs['probe'] = _lib('region.get_index_of', lambda: _probe(loaded.region, cfg['region']))
            else:
                obs['region'] = None if loaded.region is None else 'unexpected-region'
    except _LibError as le:
        e = le.exc
        site = _site(e, pair + ':' + le.stage)
        obs = dict(exception=type(e).__name__, site=site, stage=le.stage)
        fails = []
        if judged:
            fails.append((f'{site}|{type(e).__name__}|{cls}',
                          f'{pair} [{_cfg_str(cfg)}] stage {le.stage}: {type(e).__name__}: {e}; catalogs written: {parts}'
                          + (f'; file text {text!r}' if text is not None and len(text) < 400 else '')))
        return obs, fails, calls, judged
    finally:
        if path is not None:
            _rm(path)

    fails = []
    if judged:
        fails = _judge(pair, fmt, cfg, exp_events, obs, text, cls)
    return obs, fails, calls, judged


def _cfg_str(cfg):
    return ','.join(f'{k}={cfg[k]!r}' for k in sorted(cfg))


def _judge(pair, fmt, cfg, exp, obs, text, cls):
    out = {}

    def add(sig, detail):
        out.setdefault(sig, detail)

    got = obs['events']
    where = f'{pair} [{_cfg_str(cfg)}]'
    attribution = ''
    if fmt == 'ascii' and got != exp:
        try:
            dec, _ = ref.decode_csep_ascii(text)
            attribution = ('; the reference decoder recovers the events from the written file (reader at fault)'
                           if dec == exp else f'; the reference decoder reads {dec[:3]} from the written file (writer at fault)')
        except Exception as e:
            attribution = f'; the written file is not decodable by the reference decoder ({type(e).__name__}: {e})'
        if len(text) < 600:
            attribution += f'; file text {text!r}'
    if len(got) != len(exp) or obs['count'] != len(exp):
        add(f'{pair}|event-count|{cls}', f'{where}: expected {len(exp)} events, got {len(got)} (event_count={obs["count"]}): '
            f'expected {exp[:4]} got {got[:4]}{attribution}')
    elif got != exp:
        rest = lambda evs: [(e[0],) + tuple(e[2:]) for e in evs]          # everything except the origin time
        if rest(got) != rest(exp) and sorted(map(repr, rest(got))) == sorted(map(repr, rest(exp))):
            add(f'{pair}|event-order|multi-event', f'{where}: same events in a different order: expected {exp} got {got}{attribution}')
        else:
            for n, (ee, ge) in enumerate(zip(exp, got)):
                for i, field in enumerate(ref.FIELDS):
                    if type(ge[i]) is type(ee[i]) and ge[i] == ee[i]:
                        continue
                    if field == 'origin_time' and isinstance(ge[i], int):
                        d = ge[i] - ee[i]
                        if abs(d) == 1 and ge[i] == ref.truncation_model(ee[i]):
                            sig = f'{pair}|origin-time-off-by-1ms|float-truncation'
                        else:
                            mag = 'by-1ms' if abs(d) == 1 else 'by-under-1s' if abs(d) < 1000 else 'by-1s-or-more'
                            sig = f'{pair}|origin-time-differs|{mag}'
                        add(sig, f'{where}: event {n} origin_time expected {ee[i]} ({ref.time_class(ee[i])}) got {ge[i]} '
                            f'(difference {d:+d} ms; int(1000.0*total_seconds) model gives {ref.truncation_model(ee[i])}){attribution}')
                    else:
                        add(f'{pair}|{field}-differs|{ref.value_class(field, ee[i])}',
                            f'{where}: event {n} {field} expected {ee[i]!r} got {ge[i]!r}{attribution}')
    # catalog id wherever the format can carry it
    carries = fmt in ('dict', 'json') or len(exp) >= 1
    if carries and not obs['cid_ok']:
        add(f'{pair}|catalog-id|{"zero" if cfg["cid"] == 0 else "non-zero"}',
            f'{where}: catalog_id expected {cfg["cid"]!r} got {obs["cid"]}')
    if fmt in ('dict', 'json'):
        if obs['name'] != cfg['name']:
            add(f'{pair}|name|{"lost" if obs["name"] is None else "changed"}',
                f'{where}: name expected {cfg["name"]!r} got {obs["name"]!r}')
        rk = cfg['region']
        if rk is None:
            if obs['region'] is not None:
                add(f'{pair}|region|absent', f'{where}: a region appeared: {obs["region"]}')
        else:
            src_region = _region(rk)
            if obs['region'] is None:
                add(f'{pair}|region-lost|bound', f'{where}: region is None after the round trip')
            else:
                want = src_region.to_dict()
                if obs['region'] != want:
                    keys = sorted(k for k in set(want) | set(obs['region']) if want.get(k) != obs['region'].get(k))
                    add(f'{pair}|region-dict|{",".join(keys)}', f'{where}: region.to_dict() expected {want} got {obs["region"]}')
                elif {k: want.get(k) for k in ('name', 'dh', 'polygons')} != \
                        {k: v for k, v in ref.region_dict(REGIONS[rk]).items() if k in ('name', 'dh', 'polygons')}:
                    add(f'{pair}|region-dict-vs-spec|bound', f'{where}: region.to_dict() {want} does not describe {REGIONS[rk]}')
                if rk not in _REGION_PROBE:
                    _REGION_PROBE[rk] = _probe(src_region, rk)
                if obs['probe'] != _REGION_PROBE[rk]:
                    add(f'{pair}|region-indexing|bound', f'{where}: probe indices expected {_REGION_PROBE[rk]} got {obs["probe"]}')
    return list(out.items())


def _run_catalog(events, cfgs, failures, h, counters):
    evals = calls = 0
    for cfg in cfgs:
        obs, fails, n, judged = roundtrip(events, cfg)
        calls += n
        h.update(repr((_cfg_str(cfg), sorted(obs.items()))).encode())
        if not judged:
            counters['ambiguous_skipped'] = counters.get('ambiguous_skipped', 0) + 1
            continue
        evals += 1
        counters['roundtrips_' + cfg['fmt']] = counters.get('roundtrips_' + cfg['fmt'], 0) + 1
        if cfg['fmt'] == 'ascii' and 'events' in obs:
            exp = ref.as_tuples([e for p in _expected(events, cfg) for e in p])
            counters['ascii_times_judged'] = counters.get('ascii_times_judged', 0) + len(exp)
            counters['ascii_times_truncation_model_predicts_loss'] = \
                counters.get('ascii_times_truncation_model_predicts_loss', 0) + sum(1 for e in exp if ref.truncation_model(e[1]) != e[1])
            if len(exp) == len(obs['events']):
                counters['ascii_times_changed'] = counters.get('ascii_times_changed', 0) + \
                    sum(1 for e, g in zip(exp, obs['events']) if e[1] != g[1])
        for sig, detail in fails:
            failures.append(Fail(sig, detail, dict(kind='single', events=events, cfg=cfg)))
    return evals, calls


def run_case(case):
    failures = []
    h = hashlib.sha1()
    counters = {}
    evals = calls = states = nontriv = 0
    with open(os.devnull, 'w') as devnull, contextlib.redirect_stdout(devnull):
        if case['kind'] == 'batch':
            cats = case['catalogs']
            cfgs = CONFIGS[case['configs']]
        elif case['kind'] == 'times':
            cats = [[_with(1, t)] for t in case['times']]
            cfgs = CONFIGS[case['configs']]
        else:
            cats = [case['events']]
            cfgs = [case['cfg']]
        for cat in cats:
            e, c = _run_catalog(cat, cfgs, failures, h, counters)
            evals += e
            calls += c
            if case.get('configs') != 'dfregion':      # that case repeats the empty catalog: counted once only
                states += 1
                nontriv += 1 if ref.nontrivial(cat) else 0
    try:
        os.rmdir(os.path.join(VERIF, '.work', str(os.getpid())))
    except OSError:
        pass
    sample = dict(family=case.get('family', 'single'), catalog=cats[0], n_catalogs=len(cats), n_configs=len(cfgs),
                  first_config=cfgs[0], last_config=cfgs[-1])
    return result(evals=evals, states=states, transitions=calls, nontrivial=nontriv, failures=failures,
                  digest=h.hexdigest(), counters=counters,
                  sets=dict(families=[case.get('family', 'single')]), sample=sample)


def finish(agg, tier):
    c = agg['counters']
    t = tier == 'thorough'
    ev = dict(
        bounds=dict(max_events=4 if t else 3,
                    ids=len(IDS) + (len(IDS_T) if t else 0), id_printable_forms=(4 if t else 2) * len(PRINTABLE),
                    times_reduced=len(TIMES), latitudes=len(LATS), longitudes=len(LONS),
                    depths=len(DEPTHS) + (len(DEPTHS_T) if t else 0), magnitudes=len(MAGS) + (len(MAGS_T) if t else 0),
                    float_ulp_half_window=2 if t else 0, pair_alphabet_sizes=[len(REDUCED[i]) for i in range(6)],
                    profiles=len(PROFILES), configs_full=len(FULL), configs_time=len(TIME), configs_dfregion=len(DFREGION),
                    time_phase_seconds=len(PHASE_SECONDS) + (len(PHASE_SECONDS_T) if t else 0),
                    time_window_half_width_ms=2000, time_window_anchors=len(ANCHORS),
                    time_wide_window_half_width_ms=20000 if t else 0,
                    time_seed_windows=len(SEED_ANCHORS) if t else 1,
                    catalog_ids=[0, 7], regions=sorted(REGIONS)),
        ambiguous_skipped=c.get('ambiguous_skipped', 0),
        ascii_origin_times=dict(judged=c.get('ascii_times_judged', 0), changed=c.get('ascii_times_changed', 0),
                                predicted_by_truncation_model=c.get('ascii_times_truncation_model_predicts_loss', 0)),
    )
    return dict(evidence=ev, failures=[])
