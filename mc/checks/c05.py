"""C05 Poisson L / CL / S / M statistics equal the Poisson joint log-likelihood."""
import hashlib
import itertools
import math

import numpy

from mc import env, fixtures, space
from mc.engine import Fail, result
from mc.ref import ref_stats as rs

ID = 'C05'
RULE = ('shapes (cells x magnitude bins) in {1x1, 2x1, 1x3, 2x2} (thorough + 3x2); rates per bin: ALL assignments over '
        '{0, 1e-12, 0.5, 2, 1e3} (thorough + 1e-3; 3x2 over {0,1e-3,2}) with a positive total; counts per bin: ALL '
        'assignments over {0,1,2,5} (3x2: {0,1,2}); every (forecast, catalog) pair goes through the public L, CL, S and M '
        'tests with real GriddedForecast / CSEPCatalog objects; one simulated catalog per call is observed (spy) and its '
        'test-distribution entry recomputed; for N_obs<=2 every tuple of uniform draws over the boundary alphabet is '
        'injected; structured large inputs (50-128 bins, hundreds of events, counts up to 100). A pair is non-trivial iff some bin has count>=2 or some rate is 0 or N_obs != round(N_fore); distinct '
        'by construction.')
ASSUMPTIONS = ['reference = sum_k [w ln(lam) - lgamma(w+1)] - total with math.log/lgamma/fsum; tolerance 1e-10 relative to '
               'the sum of absolute terms', 'forecasts with zero total are outside the property (normalisation undefined)']

RATES_Q = [0.0, 1e-12, 0.5, 2.0, 1e3]
RATES_T = [0.0, 1e-12, 1e-3, 0.5, 2.0, 1e3]
COUNTS = [0, 1, 2, 5]


def cases(tier, seed):
    shapes = [(1, 1), (2, 1), (1, 3), (2, 2)]
    ra = RATES_Q if tier == 'quick' else RATES_T
    for shape in shapes:
        n = shape[0] * shape[1]
        rlist = [list(r) for r in itertools.product(ra, repeat=n) if any(x > 0 for x in r)]
        for chunk in space.chunks(rlist, 3 if n == 4 else 20):
            yield dict(kind='pairs', shape=list(shape), rates=chunk, counts_alpha=COUNTS)
    if tier == 'thorough':
        rlist = [list(r) for r in itertools.product([0.0, 1e-3, 2.0], repeat=6) if any(x > 0 for x in r)]
        for chunk in space.chunks(rlist, 4):
            yield dict(kind='pairs', shape=[3, 2], rates=chunk, counts_alpha=[0, 1, 2])
    # structured LARGE inputs (size-dependent code paths): many bins, many events, counts far above the small alphabet
    for shape in ([10, 5], [37, 3], [1, 64], [128, 1]):
        for pattern in range(4):
            yield dict(kind='large', shape=shape, pattern=pattern)
    # the LARGEST count of the catalog is exactly 127 / 128 / 129 / 255 / 256 / 1024 (pattern 5..10)
    for pattern in range(5, 11):
        yield dict(kind='large', shape=[10, 5], pattern=pattern)
    # hundreds of thousands of bins, sparse observations
    yield dict(kind='large', shape=[40000, 6], pattern=4)
    yield dict(kind='large', shape=[300, 20], pattern=4)
    # simulated entries under every draw tuple (N_obs <= 2)
    rl = [list(r) for r in itertools.product([0.0, 0.5, 2.0, 1e-12], repeat=4) if any(x > 0 for x in r)]
    for chunk in space.chunks(rl, 8):
        yield dict(kind='sims', shape=[2, 2], rates=chunk)
    if tier == 'quick':
        extra = [1e-3, 0.1, 7.0, 1e2][seed % 4]    # seed-selected extra rate letter: complete block on the 2x1 and 1x3 shapes
        for shape in ((2, 1), (1, 3)):
            n = shape[0] * shape[1]
            rlist = [list(r) for r in itertools.product([0.0, extra, 2.0], repeat=n) if any(x > 0 for x in r)]
            yield dict(kind='pairs', shape=list(shape), rates=rlist, counts_alpha=COUNTS)


_RTOL = [1e-10]


def tol(terms_abs):
    return _RTOL[0] * terms_abs + 1e-12


def ref_value(rates, counts, total):
    """(value, sum of |terms|)"""
    v = rs.poisson_jll(rates, counts, expected_total=total)
    mag = abs(total) + sum(abs(w * math.log(l)) + math.lgamma(w + 1) for l, w in zip(rates, counts) if w > 0 and l > 0)
    return v, mag


def views(test, data, counts):
    """flat (rates, counts, expected total) the statistic of `test` is defined on."""
    nf = float(numpy.sum(data))
    nobs = int(numpy.sum(counts))
    if test in ('L', 'CL'):
        return [float(x) for x in data.ravel()], [int(x) for x in counts.ravel()], nf
    ax = 1 if test == 'S' else 0
    r = data.sum(axis=ax)
    c = counts.sum(axis=ax)
    sc = nobs / nf
    return [float(x) * sc for x in r], [int(x) for x in c], float(nobs)


def same(a, b, mag):
    if math.isinf(a) or math.isinf(b) or math.isnan(a) or math.isnan(b):
        return a == b
    return abs(a - b) <= tol(mag)


def run_test(test, fc, cat, nobs, draws=None):
    """Runs one public test with one simulation; returns (result, simulated array)."""
    from csep.core import poisson_evaluations as pe
    from mc.checks.c06 import Spy
    fn = {'L': pe.likelihood_test, 'CL': pe.conditional_likelihood_test, 'S': pe.spatial_test, 'M': pe.magnitude_test}[test]
    with Spy(pe) as spy:
        if test == 'L':
            sc = env.Script(uniforms=list(draws), poissons=[len(draws)])
            with env.scripted_random(sc):
                res = fn(fc, cat, num_simulations=1)
        else:
            rn = numpy.array([draws], dtype=float).reshape(1, len(draws))
            res = fn(fc, cat, num_simulations=1, random_numbers=rn)
    return res, spy.calls[0]['out']


def judge_pair(shape, rates, counts, cat, fc, reg_info, failures, hsh, sims_draws=None, tests=('L', 'CL', 'S', 'M')):
    nc, nm = shape
    data = numpy.array(rates, dtype=float).reshape(nc, nm)
    cnt = numpy.array(counts, dtype=int).reshape(nc, nm)
    nobs = int(cnt.sum())
    evals = 0
    for test in tests:
        vr, vc, total = views(test, data, cnt)
        want, mag = ref_value(vr, vc, total)
        zero_target = any(w > 0 and l <= 0 for l, w in zip(vr, vc))
        cls = 'event-in-zero-rate-bin' if zero_target else ('N_obs=0' if nobs == 0 else 'general')
        site = f'poisson_evaluations.{test}-test'
        rep = dict(kind='single', shape=list(shape), rates=list(rates), counts=list(counts), test=test)
        if nobs == 0:
            draw_sets = [[]]
        elif sims_draws:
            draw_sets = sims_draws(vr, nobs)
        elif len(vr) > 5000:
            mids = [(k + 0.5) / 64 for k in range(64)]        # any numbers in [0,1): the simulated array is observed, not predicted
            draw_sets = [[mids[i % len(mids)] for i in range(nobs)]]
        else:
            mids = rs.midpoints(vr)
            draw_sets = [[mids[i % len(mids)] for i in range(nobs)]]
        for draws in draw_sets:
            rep = dict(rep, draws=list(draws))
            try:
                res, sim = run_test(test, fc, cat, nobs, draws)
            except Exception as e:
                failures.append(Fail(f'{site}|{type(e).__name__}|{cls}', f'{type(e).__name__}: {e} rates={rates} counts={counts}', rep))
                break
            evals += 1
            got = float(res.observed_statistic)
            hsh.update(repr((test, got)).encode())
            if not same(got, want, mag):
                failures.append(Fail(f'{site}|observed-statistic-differs-from-poisson-joint-log-likelihood|{cls}',
                                     f'{test}: observed_statistic={got!r}, reference={want!r} (shape {shape}, rates {rates}, counts {counts})', rep))
                break
            if (got == float('-inf')) != zero_target:
                failures.append(Fail(f'{site}|minus-infinity-iff-event-in-zero-rate-bin|{cls}', f'got {got}, zero-rate target: {zero_target}', rep))
                break
            # the simulated entry is the same function of the simulated catalog
            td = [float(x) for x in res.test_distribution]
            swant, smag = ref_value(vr, [int(x) for x in sim], total)
            if len(td) != 1 or not same(td[0], swant, smag):
                failures.append(Fail(f'{site}|test-distribution-entry-differs-from-statistic-of-simulated-catalog|{cls}',
                                     f'{test}: entry {td}, reference {swant!r} for simulated counts {sim.tolist()} (rates {rates}, draws {draws})', rep))
                break
    return evals


def run_case(case):
    failures = []
    hsh = hashlib.sha1()
    evals = states = nontriv = 0
    numpy.random.seed(2468)
    shape = tuple(case['shape'])
    nc, nm = shape
    n = nc * nm
    reg, origins, mags = fixtures.grid_setup(nc, nm)
    if case['kind'] == 'large':
        # rates and counts from closed-form patterns (no randomness): rate_i spans 1e-12..1e3, counts i mod m with spikes
        n = nc * nm
        pat = case['pattern']
        rates = [[1e-3 * (1 + (i * 7) % 13), 10.0 ** (-12 + (i % 16)), 0.5 + (i % 5), (0.0 if i % 11 == 3 else 2.0 + i), 1e-3 * (1 + (i * 7) % 13)][min(pat, 4)] for i in range(n)]
        counts = [[(i % 3) + (200 if i == 1 else 0) + (128 if i == 3 else 0) + (252 if i == 5 else 0), (7 if i % 10 == 0 else 0) + (500 if i == n - 1 else 0) + (129 if i == 2 else 0), (i % 7) + (100 if i == n // 2 else 0) + (127 if i == 0 else 0), (0 if rates[i] == 0 else (i % 2) * 6),
                   (1 if i % 997 == 0 else 0) + (3 if i == n // 2 else 0)][min(pat, 4)] for i in range(n)]
        if pat >= 5:
            rates = [1e-3 * (1 + (i * 7) % 13) for i in range(n)]
            counts = [i % 3 for i in range(n)]
            counts[4] = [127, 128, 129, 255, 256, 1024][pat - 5]
        if pat == 3:
            counts[3 if n > 3 else 0] = 0
        fc = fixtures.gridded_forecast(numpy.array(rates, dtype=float).reshape(nc, nm), reg, mags)
        cat = fixtures.catalog(fixtures.events_from_counts(numpy.array(counts).reshape(nc, nm), origins, mags), region=reg)
        evals += judge_pair(shape, rates, counts, cat, fc, None, failures, hsh)
        # history on ONE catalog object: evaluated, then its events are replaced by as many other events (the counts in reverse
        # bin order), then evaluated again on the same region and forecast
        if n <= 20000:
            rc = list(counts)[::-1]
            if pat == 3:
                rc = [0 if rates[i] == 0 else c for i, c in enumerate(rc)]
                rc[next(i for i, r in enumerate(rates) if r > 0)] += sum(counts) - sum(rc)
            other = fixtures.catalog(fixtures.events_from_counts(numpy.array(rc).reshape(nc, nm), origins, mags), region=reg)
            same_cat = fixtures.catalog(fixtures.events_from_counts(numpy.array(counts).reshape(nc, nm), origins, mags), region=reg)
            if other.event_count == same_cat.event_count:
                judge_pair(shape, rates, counts, same_cat, fc, None, [], hsh)          # first evaluation (judged above on a fresh catalog)
                same_cat.catalog = other.catalog.copy()
                before = len(failures)
                evals += judge_pair(shape, rates, rc, same_cat, fc, None, failures, hsh)
                for f in failures[before:]:
                    f['signature'] += ',events-replaced-on-the-same-catalog-object'
        # forecasts whose total is within 1e-6 (relative) of the observed number of events, and exactly equal to it
        tot_, nob_ = float(sum(rates)), float(sum(counts))
        if nob_ > 0 and n <= 20000 and pat != 3:
            for fac in (1.0 + 8e-6, 1.0 - 6e-6, 1.0):
                r2 = [r * (nob_ / tot_) * fac for r in rates]
                before = len(failures)
                evals += judge_pair(shape, r2, counts, cat, fixtures.gridded_forecast(numpy.array(r2, dtype=float).reshape(nc, nm), reg, mags), None, failures, hsh, tests=('S', 'M', 'CL'))
                for f in failures[before:]:
                    f['signature'] += ',forecast-total-nearly-equal-to-N_obs'
        # M-test with an observed catalog that is bound to ANOTHER magnitude grid (same cells, bins twice as wide): the observed
        # magnitude histogram is the one on the FORECAST's bins
        if nm >= 2 and n <= 20000:
            from csep.core.regions import CartesianGrid2D
            wide = [float(mags[0]) + 2 * (float(mags[1]) - float(mags[0])) * k for k in range(nm)]
            reg_w = fixtures.cartesian_region([tuple(o) for o in origins], 0.1, magnitudes=wide)
            cat_w = fixtures.catalog(fixtures.events_from_counts(numpy.array(counts).reshape(nc, nm), origins, mags), region=reg_w)
            before = len(failures)
            evals += judge_pair(shape, rates, counts, cat_w, fc, None, failures, hsh, tests=('M',))
            for f in failures[before:]:
                f['signature'] += ',catalog-bound-to-another-magnitude-grid'
        # the forecast reaches the same rates through scale(<ndarray>): per-cell factors (n_cells, 1) and a full-shape array
        a_cell = numpy.array([[2.0, 0.5, 4.0, 1.0][c % 4] for c in range(nc)]).reshape(nc, 1)
        a_full = numpy.array([[2.0, 0.25, 1.0, 8.0, 0.5][i % 5] for i in range(n)]).reshape(nc, nm)
        full = numpy.array(rates, dtype=float).reshape(nc, nm)
        for tag, a in (('per-cell', a_cell), ('full-shape', a_full)):
            base = full / a                       # exact: the factors are powers of two
            if not numpy.array_equal(base * a, full):
                continue                          # (only if a rate is subnormal)
            before = len(failures)
            fsc = fixtures.gridded_forecast(base, reg, mags)
            fsc.scale(a)
            evals += judge_pair(shape, rates, counts, cat, fsc, None, failures, hsh)
            for f in failures[before:]:
                f['signature'] += f',scaled-by-{tag}-array'
        # the same rates stored in single precision: statistics must agree with the double-precision definition evaluated on the
        # stored (float32) rates to a small multiple of the float32 round-off of the terms
        r32 = [float(x) for x in numpy.array(rates, dtype=numpy.float32)]
        if all(x == 0 or x > 1e-30 for x in r32):
            before = len(failures)
            _RTOL[0] = 1e-5
            try:
                evals += judge_pair(shape, r32, counts, cat, fixtures.gridded_forecast(numpy.array(rates, dtype=numpy.float32).reshape(nc, nm), reg, mags), None, failures, hsh)
            finally:
                _RTOL[0] = 1e-10
            for f in failures[before:]:
                f['signature'] += ',float32-rates'
        if nc > 1 and nm > 1 and n <= 20000:
            # the same rates held in column-major memory and as a transposed view
            for lay in ('F', 'T'):
                d = numpy.array(rates, dtype=float).reshape(nc, nm)
                d = numpy.asfortranarray(d) if lay == 'F' else numpy.ascontiguousarray(d.T).T
                before = len(failures)
                evals += judge_pair(shape, rates, counts, cat, fixtures.gridded_forecast(d, reg, mags), None, failures, hsh)
                for f in failures[before:]:
                    f['signature'] += f',layout={lay}'
        # one catalog with an event in a zero-rate bin (pattern 3 has zero-rate bins)
        if pat == 3:
            zc = list(counts)
            zc[3 if n > 3 else 0] = 2
            cat = fixtures.catalog(fixtures.events_from_counts(numpy.array(zc).reshape(nc, nm), origins, mags), region=reg)
            evals += judge_pair(shape, rates, zc, cat, fc, None, failures, hsh)
        seen, uniq = set(), []
        for f in failures:
            if f['signature'] not in seen:
                seen.add(f['signature'])
                f['case'] = dict(case)       # replay the whole structured case
                uniq.append(f)
        return result(evals=evals, states=2, transitions=evals, nontrivial=1, failures=uniq, digest=hsh.hexdigest(),
                      sample=dict(shape=list(shape), pattern=pat, n_events=int(sum(counts)), first_rates=rates[:4]))
    if case['kind'] == 'lseq':
        case = dict(case, kind='sims_lseq_only')
    if case['kind'] in ('pairs', 'single'):
        if case['kind'] == 'single':
            rate_list, count_list = [case['rates']], [case['counts']]
        else:
            rate_list = case['rates']
            count_list = [list(c) for c in itertools.product(case['counts_alpha'], repeat=n)]
        cats = {}
        for rates in rate_list:
            fc = fixtures.gridded_forecast(numpy.array(rates, dtype=float).reshape(nc, nm), reg, mags)
            nf = sum(rates)
            for counts in count_list:
                key = tuple(counts)
                if key not in cats:
                    cats[key] = fixtures.events_from_counts(numpy.array(counts).reshape(nc, nm), origins, mags)
                cat = fixtures.catalog(cats[key], region=reg)
                sd = None
                if case['kind'] == 'single' and case.get('draws') is not None:
                    sd = (lambda vr, nobs, d=case['draws'], t=case.get('test'): [list(d)])
                evals += judge_pair(shape, rates, counts, cat, fc, None, failures, hsh, sims_draws=sd)
                states += 1
                if max(counts) >= 2 or 0.0 in rates or abs(sum(counts) - nf) > 0.5:
                    nontriv += 1
            if len(failures) > 30:
                break
        sample = dict(shape=list(shape), rates=rate_list[0], counts=count_list[min(5, len(count_list) - 1)])
    else:  # sims: every tuple of draws for N_obs <= 2
        from csep.core import poisson_evaluations as pe
        from mc.checks.c06 import Spy
        # L-test with SEVERAL simulations in one call: Poisson answers alternate non-empty / empty catalogs (2,0,1,0,3,0)
        for rates in case['rates']:
            fc = fixtures.gridded_forecast(numpy.array(rates, dtype=float).reshape(nc, nm), reg, mags)
            pos0 = [i for i, r in enumerate(rates) if r > 0][0]
            counts = [1 if i == pos0 else 0 for i in range(n)]
            cat = fixtures.catalog(fixtures.events_from_counts(numpy.array(counts).reshape(nc, nm), origins, mags), region=reg)
            mids = rs.midpoints(rates)
            answers = [2, 0, 1, 0, 3, 0]
            draws = [mids[i % len(mids)] for i in range(sum(answers))]
            rep = dict(kind='lseq', shape=list(shape), rates=[list(rates)])
            try:
                with env.scripted_random(env.Script(uniforms=draws, poissons=answers)), Spy(pe) as spy:
                    res = pe.likelihood_test(fc, cat, num_simulations=len(answers))
                evals += len(answers)
                td = [float(x) for x in res.test_distribution]
                for a, call, entry in zip(answers, spy.calls, td):
                    sim = [int(x) for x in call['out']]
                    want, mag = ref_value([float(x) for x in rates], sim, float(sum(rates)))
                    if sum(sim) != a or not same(entry, want, mag):
                        failures.append(Fail('poisson_evaluations.L-test|test-distribution-entry-differs-from-statistic-of-simulated-catalog|sequence-with-empty-simulations',
                                             f'Poisson answers {answers}: simulation with {a} events recorded as {sim}, entry {entry!r}, statistic of a catalog with {a} events placed by the draws is {want!r} (rates {rates})', rep))
                        break
            except Exception as e:
                failures.append(Fail(f'poisson_evaluations.L-test|{type(e).__name__}|sequence-with-empty-simulations', f'{type(e).__name__}: {e} rates={rates}', rep))

        def all_draws(vr, nobs):
            U = rs.draw_alphabet(vr)
            return [list(t) for t in itertools.product(U, repeat=nobs)]
        for rates in ([] if case['kind'] == 'sims_lseq_only' else case['rates']):
            fc = fixtures.gridded_forecast(numpy.array(rates, dtype=float).reshape(nc, nm), reg, mags)
            pos = [i for i, r in enumerate(rates) if r > 0]
            for counts in ([0] * n, [1 if i == pos[0] else 0 for i in range(n)], [2 if i == pos[0] else 0 for i in range(n)],
                           [1 if i in (pos[0], pos[-1]) else 0 for i in range(n)]):
                cat = fixtures.catalog(fixtures.events_from_counts(numpy.array(counts).reshape(nc, nm), origins, mags), region=reg)
                evals += judge_pair(shape, rates, counts, cat, fc, None, failures, hsh, sims_draws=all_draws)
                states += 1
                nontriv += 1
        sample = dict(shape=list(shape), rates=case['rates'][0], sims='all draw tuples')
    seen, uniq = set(), []
    for f in failures:
        if f['signature'] not in seen:
            seen.add(f['signature'])
            uniq.append(f)
    return result(evals=evals, states=states, transitions=evals, nontrivial=nontriv, failures=uniq, digest=hsh.hexdigest(),
                  sample=sample)
