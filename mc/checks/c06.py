"""C06 Simulated catalogs follow the forecast by exact inverse-CDF and conserve counts."""
import hashlib
import itertools

import numpy

from mc import env, fixtures, space
from mc.engine import Fail, result
from mc.ref import ref_stats as rs

ID = 'C06'
RULE = ('rate arrays: ALL arrays of length <=4 (thorough 5) over {0,0.1,0.2,0.3,1/3,0.7,1e-12,1e3} with a positive entry, '
        'the dyadic family over {0,0.25,0.5,1,2} and the sub-unit family n x v (n<=12, optional trailing/leading zero); '
        'draws: EVERY tuple of length N<=2 (thorough 3) over U = {0, every cumulative boundary and its ulp neighbours, '
        'every interval midpoint, 1-2^-53}, injected through random_numbers into the public S/M/CL tests (2x2 rate arrays also in column-major and transposed-view memory layouts); L-test under a '
        'scripted numpy.random (every Poisson answer 0..3 x every uniform tuple); binary S / binary CL / Brier '
        'rejection loops under EVERY uniform script of length <=3 (thorough 4; one less when the draw alphabet exceeds 8 letters, 1 when it exceeds 14) over the unambiguous draws; seeds '
        '{0,1,2,12345,2^32-1} x num_simulations {1,2,7} for all nine simulation-based tests; structured large arrays (50..2000 bins, one draw per bin). A (rates, draws) pair is '
        'non-trivial iff the array has a zero-rate bin, or a draw is a boundary/neighbour/0/top value; distinct by '
        'construction.')
ASSUMPTIONS = ['simulated arrays are observed by wrapping the three modules\' _simulate_catalog (harness-side attribute '
               'substitution); a draw within 4 eps of an exact cumulative boundary may be placed on either side',
               'binary/Brier observations with more active bins than the forecast has positive-rate bins are outside the '
               'precondition (rejection loop cannot terminate): not generated']

A8 = [0.0, 0.1, 0.2, 0.3, 1.0 / 3.0, 0.7, 1e-12, 1e3]
DY = [0.0, 0.25, 0.5, 1.0, 2.0]
SEEDS = [0, 1, 2, 12345, 2 ** 32 - 1]


def arrays(tier):
    mx = 4 if tier == 'quick' else 5
    seen = set()
    for n in range(1, mx + 1):
        for a in itertools.product(A8, repeat=n):
            if any(x > 0 for x in a):
                yield list(a)
    for n in range(1, 5):
        for a in itertools.product(DY, repeat=n):
            if any(x > 0 for x in a) and not set(a) <= {0.0}:
                yield list(a)
    for v in (0.1, 0.3, 1.0 / 3.0, 0.7, 1e-3):
        for n in range(2, 13):
            yield [v] * n
            yield [v] * n + [0.0]
            yield [0.0] + [v] * n
            if n <= 6:
                yield [v] * n + [0.0, 0.0]


def cases(tier, seed):
    for chunk in space.chunks(arrays(tier), 12):
        yield dict(kind='inject', arrays=chunk, maxN=2 if tier == 'quick' else 3)
    small = [a for a in arrays('quick') if len(a) <= 3][:400] if tier == 'quick' else [a for a in arrays('quick') if len(a) <= 4]
    for chunk in space.chunks(small, 6):
        yield dict(kind='ltest', arrays=chunk)
    bin_arrays = [list(a) for n in (2, 3, 4) for a in itertools.product([0.0, 0.3, 2.0, 1e-3], repeat=n) if sum(1 for x in a if x > 0) >= 1]
    bin_arrays += [[0.1] * 10, [0.1] * 10 + [0.0], [0.0] + [0.7] * 3, [4e-17, 6e-17, 3e-16, 6e-16], [1e-20, 0.0, 1e-19]]
    for chunk in space.chunks(bin_arrays, 3):
        yield dict(kind='binary', arrays=chunk, L=3 if tier == 'quick' else 4)
    # rate arrays STORED IN SINGLE PRECISION (rates and cumulative sums exact in float32, so the intervals are the same)
    f32_arrays = [[0.25, 0.25, 0.5], [0.5, 0.0, 0.5], [0.0, 1.0, 1.0], [0.25, 0.75], [0.125, 0.375, 0.5, 0.0], [2.0, 2.0]]
    yield dict(kind='inject', arrays=f32_arrays, maxN=2, f32=True)
    for a in f32_arrays:
        yield dict(kind='binary', arrays=[a], L=2, f32=True)
    # cumulative boundary exactly at the largest double below 1 (the draw 1 - 2^-53 belongs to the LAST positive-rate bin)
    yield dict(kind='inject', arrays=[[9007199254740991.0, 1.0], [0.5, 0.5 - 2.0 ** -53, 0.0, 2.0 ** -53], [1.0, 9007199254740991.0]], maxN=2)
    # injected random-number matrices with MORE rows than num_simulations (a pre-generated pool): the first num_simulations rows are the run
    yield dict(kind='pool')
    # MANY events on FEW bins: every array of length 1..3 over a 4-letter alphabet, N in {9, 17, 33, 100} draws cycling over
    # the whole draw alphabet (0, every cumulative boundary and its neighbours, midpoints, the top double)
    few = [list(a) for n in (1, 2, 3) for a in itertools.product([0.0, 0.3, 0.7, 1e3], repeat=n) if any(x > 0 for x in a)]
    for chunk in space.chunks(few, 6):
        yield dict(kind='many', arrays=chunk, Ns=[9, 17, 33, 100])
    # structured LARGE arrays (size-dependent paths): 50..2000 bins, one draw per bin midpoint plus 0 and the top double
    for n in (50, 257, 1024, 2000):
        for pattern in range(3):
            yield dict(kind='large', n=n, pattern=pattern)
    # single-precision forecasts with MANY bins: the Poisson mean of the L-test is the forecast total (a running float32 sum drifts)
    for nc, nm, pattern in ((2000, 90, 'uniform'), (1500, 100, 'ramp'), (4000, 50, 'two-level')):
        yield dict(kind='ltest_big', nc=nc, nm=nm, pattern=pattern)
    for s in SEEDS:
        yield dict(kind='seed', seed=s)
    yield dict(kind='inject_multi')
    if tier == 'quick':
        # seed-selected additional complete block: all length-5 arrays starting with one letter (complete sub-block)
        first = A8[seed % len(A8)]
        blk = [[first] + list(a) for a in itertools.product(A8, repeat=4) if first > 0 or any(x > 0 for x in a)]
        for chunk in space.chunks(blk[::7], 12):   # every 7th array of the block, fixed stride
            yield dict(kind='inject', arrays=chunk, maxN=1)


# ----------------------------------------------------------------------------- real objects
def shape_for(test, n):
    if test == 'S':
        return n, 1
    if test == 'M':
        return 1, n
    if n == 4:
        return 2, 2
    return n, 1


def setup(rates, test, n_obs, layout='C'):
    n = len(rates)
    nc, nm = shape_for(test, n)
    reg, origins, mags = fixtures.grid_setup(nc, nm)
    data = numpy.array(rates, dtype=float).reshape(nc, nm)
    if layout == 'F':
        data = numpy.asfortranarray(data)          # same values, column-major memory layout
    elif layout == 'T':
        data = numpy.ascontiguousarray(data.T).T    # a transposed view
    elif layout == 'f32':
        data = data.astype(numpy.float32)           # single-precision storage (only used with rates that are exact in float32)
        assert [float(x) for x in data.ravel()] == [float(x) for x in rates]
    fc = fixtures.gridded_forecast(data, reg, mags)
    counts = numpy.zeros((nc, nm), dtype=int)
    k = next(i for i, r in enumerate(rates) if r > 0)
    counts.ravel()[k] = n_obs
    cat = fixtures.catalog(fixtures.events_from_counts(counts, origins, mags), region=reg)
    return fc, cat


class Spy:
    """Records every call of module._simulate_catalog (args BEFORE the call, result AFTER)."""

    def __init__(self, module):
        self.module = module
        self.calls = []

    def __enter__(self):
        self.orig = self.module._simulate_catalog
        spy = self

        def wrapper(*args, **kwargs):
            rec = dict(n=int(args[0]), weights=numpy.array(numpy.asarray(args[1]), dtype=float).copy(),
                       rn=None, out=None)
            rn = kwargs.get('random_numbers')
            if rn is None and len(args) > 3 and self.module.__name__.endswith('poisson_evaluations'):
                rn = args[3]
            if rn is not None:
                rec['rn'] = numpy.array(rn, dtype=float).copy()
            spy.calls.append(rec)
            out = spy.orig(*args, **kwargs)
            rec['out'] = numpy.array(out, dtype=float).copy()
            return out
        self.module._simulate_catalog = wrapper
        return self

    def __exit__(self, *a):
        self.module._simulate_catalog = self.orig


def input_class(rates, draws):
    zero = any(r <= 0 for r in rates)
    F = rs.exact_cdf(rates)
    top = any(u >= float(F[-2]) and u > 0.99 for u in draws) if len(F) > 1 else False
    return ('zero-rate-bins' if zero else 'positive-rates') + (',top-draw' if top else '')


def public(test):
    from csep.core import poisson_evaluations as pe, binomial_evaluations as be, brier_evaluations as br
    return {'S': pe.spatial_test, 'M': pe.magnitude_test, 'CL': pe.conditional_likelihood_test, 'L': pe.likelihood_test,
            'bS': be.binary_spatial_test, 'bCL': be.binary_conditional_likelihood_test, 'Br': br.brier_score_test}[test]


def check_quantile(res, failures, site, rep):
    td = [float(x) for x in res.test_distribution]
    obs = float(res.observed_statistic)
    q = float(res.quantile)
    want = rs.quantile_le(td, obs) if td else None
    if want is not None and (q != want or not (0.0 <= q <= 1.0)):
        failures.append(Fail(f'{site}|quantile-not-fraction-of-sims-le-observed|any',
                             f'quantile {q} but #{{sim<=obs}}/num_simulations = {want} (obs={obs}, sims={td[:6]}...)', rep))


def sharpen(allowed, call, F, rates):
    """When the cumulative weights the library itself used are EXACTLY the exact cumulative distribution (every partial sum
    representable: no round-off to concede), each draw has one bin: the interval [F_(k-1), F_k) that contains it."""
    from fractions import Fraction
    w = call.get('weights')
    try:
        if w is None or len(w) != len(rates) or any(Fraction(float(w[k])) != F[k + 1] for k in range(len(rates))):
            return allowed
    except Exception:
        return allowed
    return {u: [rs.strict_bin(u, F, rates)] for u in allowed}


def placement_ok_cached(out, t, allowed):
    target = [int(c) for c in out]
    if sum(target) != len(t):
        return False
    options = [allowed[u] for u in t]
    if any(not o for o in options):
        return False
    for combo in itertools.product(*options):
        got = [0] * len(target)
        for k in combo:
            got[k] += 1
        if got == target:
            return True
    return False


# ----------------------------------------------------------------------------- kind: inject
def run_inject(case, failures, hsh):
    from csep.core import poisson_evaluations as pe
    evals = nontriv = states = 0
    for rates in case['arrays']:
        F = rs.exact_cdf(rates)
        U = rs.draw_alphabet(rates)
        tests = ('S', 'M', 'CL')
        allowed = {u: rs.allowed_bins(u, F, rates) for u in U}
        Ff = [float(f) for f in F]
        has_zero = any(r <= 0 for r in rates)
        zero_cls = 'zero-rate-bins' if has_zero else 'positive-rates'
        topflag = {u: (len(F) > 1 and u >= Ff[-2] and u > 0.99) for u in U}
        special = {u: (u in (0.0, 1 - 2.0 ** -53) or min(abs(u - f) for f in Ff) < 1e-15) for u in U}
        maxN = case['maxN']
        if len(rates) >= 4:
            maxN = min(maxN, 1 if case['maxN'] == 2 else 2)
        if len(rates) >= 3 and maxN == 3:
            maxN = 2
        for N in range(0, maxN + 1):
            tuples = list(itertools.product(U, repeat=N))
            rn = numpy.array(tuples, dtype=float).reshape(len(tuples), N)
            for test in (tuple((t, 'f32') for t in tests) if case.get('f32') else tests + ((('CL', 'F'), ('CL', 'T')) if len(rates) == 4 else ())):
                layout = 'C'
                if isinstance(test, tuple):
                    test, layout = test
                fc, cat = setup(rates, test, N, layout)
                rep = dict(kind='inject1', rates=rates, test=test, draws=None, layout=layout)
                site = f'poisson_evaluations.{public(test).__name__}' + ('' if layout == 'C' else '[float32 rates]' if layout == 'f32' else '[non-C-contiguous rates]')
                try:
                    with Spy(pe) as spy:
                        res = public(test)(fc, cat, num_simulations=len(tuples), random_numbers=rn)
                except Exception as e:
                    # find the first tuple that fails on its own
                    bad = None
                    for t in tuples:
                        try:
                            public(test)(fc, cat, num_simulations=1, random_numbers=numpy.array([t], dtype=float).reshape(1, N))
                        except Exception as e2:
                            bad = (t, e2)
                            break
                    t, e2 = bad if bad else (tuples[0], e)
                    failures.append(Fail(f'{site}|{type(e2).__name__}|{input_class(rates, t)}',
                                         f'{type(e2).__name__}: {e2} rates={rates} draws={list(t)}',
                                         dict(rep, draws=list(t))))
                    continue
                evals += len(tuples)
                states += len(tuples)
                if len(spy.calls) != len(tuples):
                    failures.append(Fail(f'{site}|wrong-number-of-simulations|any', f'{len(spy.calls)} simulated catalogs for {len(tuples)} requested', rep))
                    continue
                for t, call in zip(tuples, spy.calls):
                    hsh.update(call['out'].tobytes())
                    out = call['out']
                    cls = zero_cls + (',top-draw' if any(topflag[u] for u in t) else '')
                    r1 = dict(rep, draws=list(t))
                    if call['n'] != N or out.sum() != N:
                        failures.append(Fail(f'{site}|wrong-event-count|{cls}', f'requested {call["n"]} events, array sums to {out.sum()}, observed catalog has {N}; rates={rates} draws={list(t)}', r1))
                        continue
                    zr = [k for k, r in enumerate(rates) if r <= 0 and out[k] > 0]
                    if zr:
                        failures.append(Fail(f'{site}|event-in-zero-rate-bin|{cls}', f'draws {list(t)} -> simulated counts {out.tolist()} with rates {rates}', r1))
                    elif not placement_ok_cached(out, t, sharpen(allowed, call, F, rates)):
                        failures.append(Fail(f'{site}|draw-placed-outside-its-cumulative-interval|{cls}',
                                             f'draws {list(t)} -> counts {out.tolist()}; rates {rates}; exact cdf {[float(f) for f in F]}', r1))
                    if has_zero or any(special[u] for u in t):
                        nontriv += 1
                if N > 0:
                    check_quantile(res, failures, site, rep)
    return evals, nontriv, states


def run_inject1(case, failures, hsh):
    from csep.core import poisson_evaluations as pe
    rates, test = case['rates'], case['test']
    t = case['draws'] or []
    N = len(t)
    F = rs.exact_cdf(rates)
    fc, cat = setup(rates, test, N, case.get('layout', 'C'))
    site = f'poisson_evaluations.{public(test).__name__}' + ('' if case.get('layout', 'C') == 'C' else '[float32 rates]' if case.get('layout') == 'f32' else '[non-C-contiguous rates]')
    cls = input_class(rates, t)
    try:
        with Spy(pe) as spy:
            res = public(test)(fc, cat, num_simulations=1, random_numbers=numpy.array([t], dtype=float).reshape(1, N))
    except Exception as e:
        failures.append(Fail(f'{site}|{type(e).__name__}|{cls}', f'{type(e).__name__}: {e} rates={rates} draws={t}', case))
        return 1, 0, 1
    out = spy.calls[0]['out']
    if out.sum() != N:
        failures.append(Fail(f'{site}|wrong-event-count|{cls}', f'{out.tolist()}', case))
    elif [k for k, r in enumerate(rates) if r <= 0 and out[k] > 0]:
        failures.append(Fail(f'{site}|event-in-zero-rate-bin|{cls}', f'draws {t} -> {out.tolist()} rates {rates}', case))
    elif not placement_ok_cached(out, tuple(t), sharpen({u: rs.allowed_bins(u, F, rates) for u in t}, spy.calls[0], F, rates)):
        failures.append(Fail(f'{site}|draw-placed-outside-its-cumulative-interval|{cls}', f'draws {t} -> {out.tolist()} rates {rates}', case))
    if N:
        check_quantile(res, failures, site, case)
    return 1, 0, 1


# ----------------------------------------------------------------------------- kind: ltest_big (float32, ~2e5 bins)
def run_ltest_big(case, failures, hsh):
    """L-test on a float32 forecast of nc x nm bins under a scripted numpy.random: the mean handed to numpy.random.poisson
    must be the forecast total (exact sum of the stored single-precision rates, relative tolerance 1e-5 - two orders above
    the error of any pairwise / double-precision summation of 2e5 terms, two orders below a running float32 sum's drift),
    and each simulated catalog holds exactly the scripted Poisson answer."""
    import math
    from csep.core import poisson_evaluations as pe
    nc, nm, pattern = case['nc'], case['nm'], case['pattern']
    reg, origins, mags = fixtures.grid_setup(nc, nm)
    idx = numpy.arange(nc * nm, dtype=float)
    if pattern == 'uniform':
        data = numpy.full(nc * nm, 0.0055)
    elif pattern == 'ramp':
        data = 1e-3 + 1e-7 * idx
    else:
        data = numpy.where(idx % 2 == 0, 0.01, 0.0003)
    data = data.astype(numpy.float32).reshape(nc, nm)
    total = math.fsum(float(x) for x in data.ravel())
    fc = fixtures.gridded_forecast(data, reg, mags)
    counts = numpy.zeros((nc, nm), dtype=int)
    counts[0, 0] = 1
    cat = fixtures.catalog(fixtures.events_from_counts(counts, origins, mags), region=reg)
    site = 'poisson_evaluations.likelihood_test[float32 rates, many bins]'
    answers = [0, 1, 2]
    sc = env.Script(uniforms=[0.5, 0.25, 0.75], poissons=answers)
    rep = dict(case)
    try:
        with env.scripted_random(sc), Spy(pe) as spy:
            pe.likelihood_test(fc, cat, num_simulations=len(answers), seed=None)
    except env.Horizon:
        failures.append(Fail(f'{site}|consumes-more-random-numbers-than-events|any', f'{nc}x{nm} {pattern}', rep))
        return 0
    except Exception as e:
        failures.append(Fail(f'{site}|{type(e).__name__}|any', f'{type(e).__name__}: {e} {nc}x{nm} {pattern}', rep))
        return 0
    pcalls = [l for l in sc.log if l[0] == 'poisson']
    hsh.update(repr([float(pc[1][0]) for pc in pcalls]).encode())
    if len(pcalls) != len(answers) or len(spy.calls) != len(answers):
        failures.append(Fail(f'{site}|wrong-number-of-poisson-draws|any', f'{len(pcalls)} poisson draws for {len(answers)} simulations', rep))
        return len(answers)
    for p, pc, call in zip(answers, pcalls, spy.calls):
        if abs(float(pc[1][0]) - total) > 1e-5 * total:
            failures.append(Fail(f'{site}|poisson-mean-is-not-forecast-total|any', f'mean {float(pc[1][0])!r} vs exact total of the stored rates {total!r} ({nc}x{nm} float32 bins, {pattern})', rep))
            break
        if call['n'] != p or call['out'].sum() != p:
            failures.append(Fail(f'{site}|wrong-event-count|any', f'poisson answer {p}, simulated {call["out"].sum()}', rep))
            break
    return len(answers)


# ----------------------------------------------------------------------------- kind: ltest (scripted numpy.random)
def run_ltest(case, failures, hsh):
    from csep.core import poisson_evaluations as pe
    evals = nontriv = states = 0
    for rates in case['arrays']:
        F = rs.exact_cdf(rates)
        U = rs.draw_alphabet(rates)
        fc, cat = setup(rates, 'CL', 1)
        total = float(numpy.sum(numpy.array(rates)))
        site = 'poisson_evaluations.likelihood_test'
        scripts = [(p, t) for p in (0, 1, 2, 3) for t in (itertools.product(U, repeat=p) if p <= 2 else
                                                        [tuple(U[(i + j) % len(U)] for j in range(3)) for i in range(len(U))])]
        sc = env.Script(uniforms=[u for _, t in scripts for u in t], poissons=[p for p, _ in scripts])
        rep = dict(kind='ltest1', rates=rates)
        try:
            with env.scripted_random(sc), Spy(pe) as spy:
                res = pe.likelihood_test(fc, cat, num_simulations=len(scripts), seed=None)
        except env.Horizon:
            failures.append(Fail(f'{site}|consumes-more-random-numbers-than-events|any', f'rates={rates}', rep))
            continue
        except Exception as e:
            failures.append(Fail(f'{site}|{type(e).__name__}|{input_class(rates, U)}', f'{type(e).__name__}: {e} rates={rates}', rep))
            continue
        evals += len(scripts)
        states += len(scripts)
        pcalls = [l for l in sc.log if l[0] == 'poisson']
        ucalls = [l for l in sc.log if l[0] in ('rand', 'uniform')]
        if len(pcalls) != len(scripts) or len(spy.calls) != len(scripts):
            failures.append(Fail(f'{site}|wrong-number-of-poisson-draws|any', f'{len(pcalls)} poisson draws for {len(scripts)} simulations', rep))
            continue
        for (p, t), pc, uc, call in zip(scripts, pcalls, ucalls, spy.calls):
            hsh.update(call['out'].tobytes())
            if abs(pc[1][0] - total) > 1e-9 * max(1.0, total):
                failures.append(Fail(f'{site}|poisson-mean-is-not-forecast-total|any', f'mean {pc[1][0]} vs total {total} rates={rates}', rep))
                break
            out = call['out']
            if call['n'] != p or out.sum() != p or list(uc[2]) != list(t):
                failures.append(Fail(f'{site}|wrong-event-count|any', f'poisson answer {p}, simulated {out.sum()} rates={rates}', rep))
                break
            if [k for k, r in enumerate(rates) if r <= 0 and out[k] > 0]:
                failures.append(Fail(f'{site}|event-in-zero-rate-bin|{input_class(rates, t)}', f'draws {list(t)} -> {out.tolist()} rates {rates}', rep))
                break
            if not rs.placement_ok(out, t, F, rates):
                failures.append(Fail(f'{site}|draw-placed-outside-its-cumulative-interval|{input_class(rates, t)}', f'draws {list(t)} -> {out.tolist()} rates {rates}', rep))
                break
            nontriv += 1
        check_quantile(res, failures, site, rep)
    return evals, nontriv, states


# ----------------------------------------------------------------------------- kind: binary (rejection loop)
def unambiguous_draws(rates):
    F = rs.exact_cdf(rates)
    vals = {0.0, 1.0 - 2.0 ** -53}
    for m in rs.midpoints(rates):
        vals.add(m)
    for k in range(1, len(F) - 1):
        b = float(F[k])
        for d in (-64, 64):
            x = b + d * 2.0 ** -53
            if 0 <= x < 1 and all(abs(x - float(f)) > 16 * 2.0 ** -53 for f in F):
                vals.add(x)
    return sorted(vals)


def ref_rejection(script, rates, N):
    F = rs.exact_cdf(rates)
    out = [0] * len(rates)
    used = 0
    active = 0
    for u in script:
        if active >= N:
            break
        used += 1
        k = rs.strict_bin(u, F, rates)
        if out[k] == 0:
            out[k] = 1
            active += 1
    return out, used, active


def run_binary(case, failures, hsh):
    from csep.core import binomial_evaluations as be, brier_evaluations as br
    evals = nontriv = states = 0
    for rates in case['arrays']:
        npos = sum(1 for r in rates if r > 0)
        U = unambiguous_draws(rates)
        mids = rs.midpoints(rates)
        for N in (1, 2):
            if N > npos:
                continue
            for test, mod, layout in ((('bS', be, 'f32'), ('bCL', be, 'f32'), ('Br', br, 'f32')) if case.get('f32') else
                                      (('bS', be, 'C'), ('bCL', be, 'C'), ('Br', br, 'C')) + ((('bCL', be, 'F'), ('Br', br, 'F')) if len(rates) == 4 else ())):
                n = len(rates)
                nc, nm = (n, 1) if test == 'bS' else shape_for('CL', n)
                reg, origins, mags = fixtures.grid_setup(nc, nm)
                data_ = numpy.array(rates, dtype=(numpy.float32 if layout == 'f32' else float)).reshape(nc, nm)
                fc = fixtures.gridded_forecast(numpy.asfortranarray(data_) if layout == 'F' else data_, reg, mags)
                counts = numpy.zeros(nc * nm, dtype=int)
                pos = [i for i, r in enumerate(rates) if r > 0][:N]
                counts[pos] = 1
                cat = fixtures.catalog(fixtures.events_from_counts(counts.reshape(nc, nm), origins, mags), region=reg)
                site = f'{mod.__name__.split(".")[-1]}.{public(test).__name__}' + ('' if layout == 'C' else '[float32 rates]' if layout == 'f32' else '[non-C-contiguous rates]')
                Lmax = case['L'] if len(U) <= 8 else (case['L'] - 1 if len(U) <= 14 else 1)
                Ls = range(0, Lmax + 1)
                for L in Ls:
                    for head in itertools.product(U, repeat=L):
                        script = list(head) + [mids[i % len(mids)] for i in range(2 * len(mids))]
                        want, used, active = ref_rejection(script, rates, N)
                        if active < N:
                            continue
                        sc = env.Script(uniforms=script)
                        rep = dict(kind='binary1', rates=rates, test=test, N=N, script=list(head), layout=layout)
                        cls = ('zero-rate-bins' if any(r <= 0 for r in rates) else 'positive-rates')
                        try:
                            with env.scripted_random(sc), Spy(mod) as spy:
                                res = public(test)(fc, cat, num_simulations=1, seed=None)
                        except env.Horizon:
                            failures.append(Fail(f'{site}|rejection-loop-does-not-terminate-on-script|{cls}', f'rates={rates} N={N} script={script}', rep))
                            continue
                        except Exception as e:
                            failures.append(Fail(f'{site}|{type(e).__name__}|{cls}', f'{type(e).__name__}: {e} rates={rates} N={N} script={list(head)}', rep))
                            continue
                        evals += 1
                        states += 1
                        out = spy.calls[0]['out']
                        hsh.update(out.tobytes())
                        if [k for k, r in enumerate(rates) if r <= 0 and out[k] > 0]:
                            failures.append(Fail(f'{site}|event-in-zero-rate-bin|{cls}', f'script {script[:used]} -> {out.tolist()} rates {rates} (library weights {spy.calls[0]["weights"].tolist()})', rep))
                        elif spy.calls[0]['n'] != N or sorted(set(out.tolist())) not in ([0.0, 1.0], [1.0], [0.0]) or out.sum() != N:
                            failures.append(Fail(f'{site}|not-N-distinct-active-cells|{cls}', f'N={N} -> {out.tolist()} rates {rates}', rep))
                        elif out.tolist() != [float(x) for x in want]:
                            failures.append(Fail(f'{site}|draw-placed-outside-its-cumulative-interval|{cls}', f'script {script[:used]} -> {out.tolist()} expected {want} rates {rates}', rep))
                        check_quantile(res, failures, site, rep)
                        if any(r <= 0 for r in rates) or L > 0:
                            nontriv += 1
    return evals, nontriv, states


def run_binary1(case, failures, hsh):
    c = dict(arrays=[case['rates']], L=0)
    # replay exactly one script: emulate by restricting enumeration
    from csep.core import binomial_evaluations as be, brier_evaluations as br
    rates, test, N, head = case['rates'], case['test'], case['N'], case['script']
    mod = br if test == 'Br' else be
    n = len(rates)
    nc, nm = (n, 1) if test == 'bS' else shape_for('CL', n)
    reg, origins, mags = fixtures.grid_setup(nc, nm)
    data_ = numpy.array(rates, dtype=(numpy.float32 if case.get('layout') == 'f32' else float)).reshape(nc, nm)
    fc = fixtures.gridded_forecast(numpy.asfortranarray(data_) if case.get('layout') == 'F' else data_, reg, mags)
    counts = numpy.zeros(nc * nm, dtype=int)
    counts[[i for i, r in enumerate(rates) if r > 0][:N]] = 1
    cat = fixtures.catalog(fixtures.events_from_counts(counts.reshape(nc, nm), origins, mags), region=reg)
    mids = rs.midpoints(rates)
    script = list(head) + [mids[i % len(mids)] for i in range(2 * len(mids))]
    want, used, active = ref_rejection(script, rates, N)
    site = f'{mod.__name__.split(".")[-1]}.{public(test).__name__}' + ('' if case.get('layout', 'C') == 'C' else '[float32 rates]' if case.get('layout') == 'f32' else '[non-C-contiguous rates]')
    cls = ('zero-rate-bins' if any(r <= 0 for r in rates) else 'positive-rates')
    try:
        with env.scripted_random(env.Script(uniforms=script)), Spy(mod) as spy:
            res = public(test)(fc, cat, num_simulations=1, seed=None)
    except env.Horizon:
        failures.append(Fail(f'{site}|rejection-loop-does-not-terminate-on-script|{cls}', f'{case}', case))
        return 1, 0, 1
    except Exception as e:
        failures.append(Fail(f'{site}|{type(e).__name__}|{cls}', f'{type(e).__name__}: {e}', case))
        return 1, 0, 1
    out = spy.calls[0]['out']
    if [k for k, r in enumerate(rates) if r <= 0 and out[k] > 0]:
        failures.append(Fail(f'{site}|event-in-zero-rate-bin|{cls}', f'{out.tolist()}', case))
    elif out.sum() != N or sorted(set(out.tolist())) not in ([0.0, 1.0], [1.0], [0.0]):
        failures.append(Fail(f'{site}|not-N-distinct-active-cells|{cls}', f'{out.tolist()}', case))
    elif out.tolist() != [float(x) for x in want]:
        failures.append(Fail(f'{site}|draw-placed-outside-its-cumulative-interval|{cls}', f'{out.tolist()} vs {want}', case))
    check_quantile(res, failures, site, case)
    return 1, 0, 1


# ----------------------------------------------------------------------------- kind: seed (determinism)
def catalog_forecast_setup():
    from csep.core.forecasts import CatalogForecast
    reg, origins, mags = fixtures.grid_setup(2, 3)
    contents = [[[1, 0, 0], [0, 1, 0]], [[0, 2, 0], [0, 0, 0]], [[0, 0, 1], [1, 1, 0]], [[1, 1, 1], [0, 0, 0]]]
    cats = [fixtures.catalog(fixtures.events_from_counts(c, origins, mags), region=reg, catalog_id=i) for i, c in enumerate(contents)]
    fc = CatalogForecast(catalogs=cats, n_cat=len(cats), region=reg, name='cf')
    obs = fixtures.catalog(fixtures.events_from_counts([[1, 1, 0], [0, 1, 0]], origins, mags), region=reg)
    return fc, obs


def run_seed(case, failures, hsh):
    from csep.core import catalog_evaluations as ce
    s = case['seed']
    evals = 0
    rates = [0.3, 0.0, 0.7, 2.0]
    runs = []
    for test in ('L', 'CL', 'S', 'M', 'bS', 'bCL', 'Br'):
        for ns in (1, 2, 7):
            def call(test=test, ns=ns):
                fc, cat = setup(rates, 'CL' if test in ('L', 'CL', 'bCL', 'Br') else ('S' if test in ('S', 'bS') else 'M'), 2)
                return public(test)(fc, cat, num_simulations=ns, seed=s)
            runs.append((f'{public(test).__module__.split(".")[-1]}.{public(test).__name__}', ns, call))
    for name, fn in (('resampled_magnitude_test', ce.resampled_magnitude_test), ('MLL_magnitude_test', ce.MLL_magnitude_test)):
        def call(fn=fn):
            fc, obs = catalog_forecast_setup()
            return fn(fc, obs, seed=s)
        runs.append((f'catalog_evaluations.{name}', 4, call))
    for site, ns, call in runs:
        rep = dict(kind='seed', seed=s)
        obs_ = []
        try:
            for prior in (111, 222):
                numpy.random.seed(prior)
                numpy.random.rand(prior % 7)
                r = call()
                obs_.append((fixtures.norm(r.test_distribution), fixtures.norm(r.quantile), fixtures.norm(r.observed_statistic)))
                if not isinstance(r.quantile, (tuple, list)):
                    check_quantile(r, failures, site, rep)
        except Exception as e:
            failures.append(Fail(f'{site}|{type(e).__name__}|seed', f'{type(e).__name__}: {e} seed={s}', rep))
            continue
        evals += 2
        hsh.update(repr(obs_[0]).encode())
        if obs_[0] != obs_[1]:
            failures.append(Fail(f'{site}|result-depends-on-prior-rng-state|seed={"0" if s == 0 else "nonzero"}',
                                 f'seed={s} num_simulations={ns}: two runs with different prior RNG state differ: {str(obs_[0])[:150]} vs {str(obs_[1])[:150]}', rep))
    return evals, evals, len(runs)


# ----------------------------------------------------------------------------- kind: inject_multi
def run_inject_multi(case, failures, hsh):
    """Same injected numbers in every simulation -> identical entries; more than one simulation must work."""
    evals = 0
    rates = [0.3, 0.2, 0.5, 1.0]
    mids = rs.midpoints(rates)
    for test in ('S', 'M', 'CL', 'bS', 'bCL', 'Br'):
        for ns in (1, 2, 3, 4, 7):
            fc, cat = setup(rates, 'S' if test in ('S', 'bS') else ('M' if test == 'M' else 'CL'), 2)
            # two observed events sit in one bin; binary tests therefore need 1 active cell -> 1 draw per simulation
            ndraw = 1 if test in ('bS', 'bCL', 'Br') else 2
            rn = numpy.array([mids[:ndraw]] * ns, dtype=float)
            site = f'{public(test).__module__.split(".")[-1]}.{public(test).__name__}'
            rep = dict(kind='inject_multi')
            try:
                r = public(test)(fc, cat, num_simulations=ns, random_numbers=rn)
            except Exception as e:
                failures.append(Fail(f'{site}|{type(e).__name__}|injected-numbers,num_simulations>1' if ns > 1 else f'{site}|{type(e).__name__}|injected-numbers',
                                     f'{type(e).__name__}: {e} num_simulations={ns}', rep))
                continue
            evals += 1
            td = fixtures.norm(r.test_distribution)
            hsh.update(repr(td).encode())
            check_quantile(r, failures, site, rep)       # every simulation ties with every other (and often with the observation)
            if len(td) != ns or any(x != td[0] for x in td):
                failures.append(Fail(f'{site}|identical-injected-numbers-give-different-simulations|any', f'{td}', rep))
    return evals, evals, evals


def run_many(case, failures, hsh):
    from csep.core import poisson_evaluations as pe
    evals = 0
    for rates in case['arrays']:
        F = rs.exact_cdf(rates)
        U = rs.draw_alphabet(rates)
        allowed = {u: rs.allowed_bins(u, F, rates) for u in U}
        for N in case['Ns']:
            draws = [U[i % len(U)] for i in range(N)]
            for test in ('S', 'M'):
                fc, cat = setup(rates, test, N)
                site = f'poisson_evaluations.{public(test).__name__}'
                rep = dict(kind='many', arrays=[rates], Ns=[N])
                try:
                    with Spy(pe) as spy:
                        res = public(test)(fc, cat, num_simulations=1, random_numbers=numpy.array([draws], dtype=float))
                except Exception as e:
                    failures.append(Fail(f'{site}|{type(e).__name__}|many-events-few-bins', f'{type(e).__name__}: {e} rates={rates} N={N}', rep))
                    continue
                evals += 1
                out = [int(x) for x in spy.calls[0]['out']]
                hsh.update(repr(out).encode())
                # feasibility: every draw goes to one of its allowed bins -> per-bin counts between the forced and the possible number
                lo = [0] * len(rates)
                hi = [0] * len(rates)
                for u in draws:
                    b = allowed[u]
                    for k in b:
                        hi[k] += 1
                    if len(b) == 1:
                        lo[b[0]] += 1
                if sum(out) != N:
                    failures.append(Fail(f'{site}|wrong-event-count|many-events-few-bins', f'{sum(out)} for N={N} rates={rates}', rep))
                elif any(o > 0 and r <= 0 for o, r in zip(out, rates)):
                    failures.append(Fail(f'{site}|event-in-zero-rate-bin|many-events-few-bins', f'N={N} draws cycle over {U}: counts {out} rates {rates}', rep))
                elif any(not (l <= o <= h_) for o, l, h_ in zip(out, lo, hi)):
                    failures.append(Fail(f'{site}|draw-placed-outside-its-cumulative-interval|many-events-few-bins',
                                         f'N={N} draws cycle over {U}: counts {out}, admissible per bin {list(zip(lo, hi))}, rates {rates}', rep))
    return evals, evals, len(case['arrays'])


def run_pool(case, failures, hsh):
    from csep.core import poisson_evaluations as pe, binomial_evaluations as be, brier_evaluations as br
    evals = 0
    rates = [0.3, 0.0, 0.7, 2.0]
    mids = rs.midpoints(rates)
    for test in ('CL', 'S', 'M', 'bS', 'bCL', 'Br'):
        for ns, rows in ((1, 3), (2, 5), (3, 3), (4, 9)):
            fc, cat = setup(rates, 'CL' if test in ('CL', 'bCL', 'Br') else ('S' if test in ('S', 'bS') else 'M'), 2)
            # two draws per row, in two DIFFERENT positive-rate bins (the binary tests need distinct cells from injected numbers)
            prs = [(a, b) for a in mids for b in mids if a != b]
            pool = numpy.array([prs[r % len(prs)] for r in range(rows)], dtype=float)
            if test in ('bS', 'bCL', 'Br'):
                pool = pool[:, :1].copy()          # the observed catalog has ONE active cell: one draw per simulated catalog
            assert len(mids) == 3
            site = f'{public(test).__module__.split(".")[-1]}.{public(test).__name__}'
            rep = dict(kind='pool')
            try:
                res = public(test)(fc, cat, num_simulations=ns, random_numbers=pool)
                ref_ = public(test)(fc, cat, num_simulations=ns, random_numbers=pool[:ns].copy())
            except Exception as e:
                failures.append(Fail(f'{site}|{type(e).__name__}|pool-of-{rows}-rows-for-{ns}-simulations', f'{type(e).__name__}: {e}', rep))
                continue
            evals += 2
            td, td0 = [float(x) for x in res.test_distribution], [float(x) for x in ref_.test_distribution]
            hsh.update(repr((test, ns, rows, td)).encode())
            if len(td) != ns or td != td0 or float(res.quantile) != float(ref_.quantile):
                failures.append(Fail(f'{site}|result-depends-on-unused-rows-of-the-random-number-pool|any',
                                     f'num_simulations={ns}, {rows} rows given: {len(td)} simulated statistics {td[:6]}, quantile {float(res.quantile)}; with exactly {ns} rows: {td0}, quantile {float(ref_.quantile)}', rep))
            check_quantile(res, failures, site, rep)
    return evals, evals, 24


def run_large(case, failures, hsh):
    from csep.core import poisson_evaluations as pe, binomial_evaluations as be, brier_evaluations as br
    n, pat = case['n'], case['pattern']
    rates = [[0.1, 1e-3 * (1 + i % 17), (0.0 if i % 5 == 2 else 10.0 ** (-6 + i % 9))][pat] for i in range(n)]
    F = rs.exact_cdf(rates)
    draws = [0.0] + rs.midpoints(rates) + [1.0 - 2.0 ** -53]
    want = [0] * n
    for u in draws:
        b = rs.allowed_bins(u, F, rates)
        want[b[0] if len(b) == 1 else rs.strict_bin(u, F, rates)] += 1
    evals = 0
    rep = dict(case)
    for test in ('S', 'M'):
        fc, cat = setup(rates, test, len(draws))
        site = f'poisson_evaluations.{public(test).__name__}'
        try:
            with Spy(pe) as spy:
                res = public(test)(fc, cat, num_simulations=2, random_numbers=numpy.array([draws, draws[::-1]], dtype=float))
        except Exception as e:
            failures.append(Fail(f'{site}|{type(e).__name__}|large-array', f'{type(e).__name__}: {e} n={n} pattern={pat}', rep))
            continue
        evals += 2
        for call in spy.calls:
            out = [int(x) for x in call['out']]
            hsh.update(repr(out).encode())
            if sum(out) != len(draws):
                failures.append(Fail(f'{site}|wrong-event-count|large-array', f'{sum(out)} events for {len(draws)} draws (n={n})', rep))
            elif any(o > 0 and r <= 0 for o, r in zip(out, rates)):
                failures.append(Fail(f'{site}|event-in-zero-rate-bin|large-array', f'n={n} pattern={pat}', rep))
            elif out != want:
                bad = [i for i in range(n) if out[i] != want[i]][:5]
                failures.append(Fail(f'{site}|draw-placed-outside-its-cumulative-interval|large-array', f'n={n} pattern={pat}: bins {bad} hold {[out[i] for i in bad]} expected {[want[i] for i in bad]}', rep))
        check_quantile(res, failures, site, rep)
    # binary / Brier rejection loop on the same array: N = 5 active cells, scripted uniforms (duplicates force rejections)
    mids = rs.midpoints(rates)
    script = [mids[0], mids[0], mids[1], mids[0], mids[len(mids) // 2], mids[1], mids[-1], mids[-1], mids[3]] + mids[:8]
    wantb, used, active = ref_rejection(script, rates, 5)
    for test, mod in (('bS', be), ('Br', br)):
        reg, origins, mags = fixtures.grid_setup(n, 1)
        fc = fixtures.gridded_forecast(numpy.array(rates, dtype=float).reshape(n, 1), reg, mags)
        counts = numpy.zeros(n, dtype=int)
        counts[[i for i, r in enumerate(rates) if r > 0][:5]] = 1
        cat = fixtures.catalog(fixtures.events_from_counts(counts.reshape(n, 1), origins, mags), region=reg)
        site = f'{mod.__name__.split(".")[-1]}.{public(test).__name__}'
        try:
            with env.scripted_random(env.Script(uniforms=script)), Spy(mod) as spy:
                res = public(test)(fc, cat, num_simulations=1, seed=None)
            evals += 1
            out = [float(x) for x in spy.calls[0]['out']]
            if out != [float(x) for x in wantb]:
                failures.append(Fail(f'{site}|draw-placed-outside-its-cumulative-interval|large-array', f'n={n} pattern={pat}: active {[i for i, x in enumerate(out) if x]} expected {[i for i, x in enumerate(wantb) if x]}', rep))
        except Exception as e:
            failures.append(Fail(f'{site}|{type(e).__name__}|large-array', f'{type(e).__name__}: {e} n={n} pattern={pat}', rep))
    return evals, evals, 1


def run_case(case):
    failures = []
    hsh = hashlib.sha1()
    numpy.random.seed(13579)
    k = case['kind']
    fn = {'inject': run_inject, 'inject1': run_inject1, 'ltest': run_ltest, 'ltest1': lambda c, f, h: run_ltest(dict(arrays=[c['rates']]), f, h),
          'binary': run_binary, 'binary1': run_binary1, 'seed': run_seed, 'inject_multi': run_inject_multi, 'large': run_large, 'many': run_many, 'pool': run_pool,
          'ltest_big': lambda c, f, h: (run_ltest_big(c, f, h), 1, 1)}[k]
    evals, nontriv, states = fn(case, failures, hsh)
    seen, uniq = set(), []
    for f in failures:
        if f['signature'] not in seen:
            seen.add(f['signature'])
            uniq.append(f)
    sample = {kk: (vv[:2] if isinstance(vv, list) else vv) for kk, vv in case.items()}
    return result(evals=evals, states=states, transitions=evals, nontrivial=nontriv, failures=uniq, digest=hsh.hexdigest(),
                  sample=sample)
