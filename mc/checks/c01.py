"""C01 Cartesian regions assign each point to the one half-open cell containing it."""
import hashlib
import itertools
import decimal

import numpy

from mc import floats, fixtures
from mc.engine import Fail, result

ID = 'C01'
RULE = ('lattices = dh x anchor x origin style (decimal grid | file midpoint - dh/2) x extent nx,ny in 1..3 (thorough '
        '1..4) x EVERY non-empty subset of cells for extents up to 6 cells (thorough 9; structured hole patterns '
        'above; plus spacings/anchors with 7+ decimals: 1/128 @ (10.0234375, 45.0078125), 0.1/64, 0.1 @ (12.3456789, -7.1234567), 1/64) x mask flags {none, all 1, each single cell 0, checkerboard} x cell order {row-major, column-major, '
        'reversed}; probes = full 2-D product of per-axis sets {every column/row boundary incl. the upper bounding '
        'edge +-K ulps (K=4), cell midpoints, one cell outside each side, +-1e6}; thorough adds axis-wise +-64 ulp '
        'windows. Shipped regions (NZ, NZ collection, Italy collection, California collection, global 1.0 | 0.5): for '
        'every bounding-box lattice position its corner, centre and +-K windows on each axis. A lattice is '
        'non-trivial iff it has a hole, a flagged-out cell or a unit extent; lattices are distinct by construction.')
ASSUMPTIONS = ['tolerance zone: a point closer than slack = 4*eps*((c+2)(|a0|+dh)+|p|) below boundary c may go to '
               'either neighbour (property: documented round-off tolerance of relative order 1e-12)',
               'between ulp windows the per-axis index is monotone (C02 checks the staircase itself)']

EPS = float(numpy.finfo(float).eps)
DHS_Q = [0.1, 0.25, 1.0]
DHS_T = [0.1, 0.25, 1.0, 0.05, 0.2, 0.5]
ANCH_Q = [(0.0, 0.0), (-0.3, -0.2), (-125.4, 31.5), (165.7, -47.8), (4.9, 35.3), (-180.0, -90.0)]
FINE = [(0.001, (359.0, 0.0)), (0.001, (0.0, -89.0)), (0.0078125, (10.0234375, 45.0078125)), (0.0015625, (-0.0046875, 0.0015625)), (0.1, (12.3456789, -7.1234567)),
        (0.015625, (-125.484375, 31.515625))]
ANCH_T = ANCH_Q + [(179.0, 89.0), (-0.05, -0.05)]


def cases(tier, seed):
    dhs = DHS_Q if tier == 'quick' else DHS_T
    anchors = ANCH_Q if tier == 'quick' else ANCH_T
    mx = 3 if tier == 'quick' else 4
    full_subsets_upto = 6 if tier == 'quick' else 9
    for dh, anchor, style in itertools.product(dhs, anchors, ('decimal', 'midpoint')):
        for nx in range(1, mx + 1):
            for ny in range(1, mx + 1):
                yield dict(kind='family', dh=dh, anchor=list(anchor), style=style, nx=nx, ny=ny,
                           all_subsets=(nx * ny <= full_subsets_upto), K=4, Kaxis=(0 if tier == 'quick' else 64))
    # lattices whose spacing and anchor need many decimals (binary fractions, 7-decimal anchors)
    for dh, anchor in FINE:
        for nx, ny in ((1, 1), (2, 2), (3, 1), (1, 3), (3, 3)):
            yield dict(kind='family', dh=dh, anchor=list(anchor), style='decimal', nx=nx, ny=ny,
                       all_subsets=(nx * ny <= 4), K=4, Kaxis=(0 if tier == 'quick' else 64))
    regs = ['nz_csep_region', 'nz_csep_collection_region', 'italy_csep_collection_region',
            'california_relm_collection_region', 'global_1.0'] + (['global_0.5'] if tier == 'thorough' else [])
    for r in regs:
        yield dict(kind='shipped', name=r, K=(2 if tier == 'quick' else 8))
    if tier == 'quick':
        # seed-selected additional complete block from the thorough space
        extra = list(itertools.product([0.05, 0.2, 0.5], ANCH_T))
        dh, anchor = extra[seed % len(extra)]
        for nx, ny in ((1, 1), (2, 2), (3, 1), (1, 3), (2, 3)):
            yield dict(kind='family', dh=dh, anchor=list(anchor), style='midpoint', nx=nx, ny=ny, all_subsets=True,
                       K=4, Kaxis=0)


# ------------------------------------------------------------------ lattice construction (harness side)
def axis_values(a, dh, n, style):
    """Lower edges of n consecutive columns starting at decimal anchor a."""
    if style == 'decimal':
        return [floats.decimal_grid(a, dh, k) for k in range(n)]
    # as the shipped loaders do: file midpoints (decimal literals) minus dh/2
    half = decimal.Decimal(repr(dh)) / 2
    mids = [float(decimal.Decimal(repr(a)) + half + decimal.Decimal(repr(dh)) * k) for k in range(n)]
    return [m - dh / 2 for m in mids]


def subsets_for(nx, ny, all_subsets):
    cells = [(c, r) for r in range(ny) for c in range(nx)]     # row-major: lon fastest
    if all_subsets:
        for n in range(len(cells), 0, -1):
            for sub in itertools.combinations(cells, n):
                yield list(sub)
    else:
        yield cells
        inner = [(c, r) for (c, r) in cells if 0 < c < nx - 1 and 0 < r < ny - 1]
        if inner:
            yield [x for x in cells if x not in inner]
        yield [x for x in cells if x != (0, 0)]
        yield [x for x in cells if x != (nx - 1, ny - 1)]
        yield [x for x in cells if (x[0] + x[1]) % 2 == 0]
        yield [x for x in cells if x[0] != 1] if nx > 2 else cells[:1]


def orders(cells):
    yield 'row-major', list(cells)
    if len(cells) > 1:
        yield 'column-major', sorted(cells, key=lambda cr: (cr[0], cr[1]))
        yield 'reversed', list(cells)[::-1]


def masks(n):
    yield 'none', None
    yield 'all1', [1] * n
    if n > 1:
        for i in range(min(n, 6)):
            yield f'zero{i}', [0 if j == i else 1 for j in range(n)]
        yield 'checker', [(j % 2) for j in range(n)]


# ------------------------------------------------------------------ reference partition
class RefLattice:
    """Half-open partition defined directly by the cells' own origins."""

    def __init__(self, cells, bx, by, dh, flags):
        # cells: list of (col,row) in polygon order; bx/by: lower edges of all columns/rows spanned by the cells
        cols = sorted({c for c, _ in cells})
        rows = sorted({r for _, r in cells})
        self.c0, self.r0 = cols[0], rows[0]
        self.ncol = cols[-1] - cols[0] + 1
        self.nrow = rows[-1] - rows[0] + 1
        self.bx = numpy.array([bx[c] for c in range(cols[0], cols[-1] + 1)])
        self.by = numpy.array([by[r] for r in range(rows[0], rows[-1] + 1)])
        self.ux = self.bx[-1] + dh
        self.uy = self.by[-1] + dh
        self.dh = dh
        # padded maps: index -1 / ncol -> outside
        self.active = numpy.zeros((self.nrow + 2, self.ncol + 2), bool)
        self.index = numpy.full((self.nrow + 2, self.ncol + 2), -1, dtype=numpy.int64)
        for i, (c, r) in enumerate(cells):
            rr, cc = r - self.r0 + 1, c - self.c0 + 1
            self.index[rr, cc] = i
            self.active[rr, cc] = (flags is None or flags[i] == 1)

    def axis(self, p, b, u):
        """per-axis: c* = max{c: b[c] <= p} (n if p >= u, -1 if p < b[0]); maybe_next: within slack below the next edge"""
        ext = numpy.append(b, u)
        cs = numpy.searchsorted(ext, p, side='right') - 1          # -1 .. n
        n = len(b)
        nxt = numpy.clip(cs + 1, 0, n)
        dist = ext[nxt] - p
        a0 = float(b[0])
        slack = 4.0 * EPS * ((nxt + 2.0) * (abs(a0) + self.dh) + numpy.abs(p))
        maybe = (cs < n) & (dist <= slack)
        # self-check by pure comparisons
        ok = numpy.ones(len(p), bool)
        inb = (cs >= 0)
        ok[inb] &= ext[cs[inb]] <= p[inb]
        up = cs < n
        ok[up] &= p[up] < ext[cs[up] + 1]
        assert ok.all()
        return cs, maybe

    def judge(self, lons, lats, got_masked, got_index):
        """got_index: int array (valid where not masked). Returns boolean arrays (bad_masked, bad_index)."""
        cx, mx = self.axis(lons, self.bx, self.ux)
        cy, my = self.axis(lats, self.by, self.uy)
        any_inactive = numpy.zeros(len(lons), bool)
        index_ok = numpy.zeros(len(lons), bool)
        for dx in (0, 1):
            for dy in (0, 1):
                use = numpy.ones(len(lons), bool)
                if dx:
                    use &= mx
                if dy:
                    use &= my
                cc = numpy.clip(cx + dx, -1, self.ncol) + 1
                rr = numpy.clip(cy + dy, -1, self.nrow) + 1
                act = self.active[rr, cc]
                any_inactive |= use & ~act
                index_ok |= use & act & (self.index[rr, cc] == got_index)
        bad_masked = got_masked & ~any_inactive
        bad_index = ~got_masked & ~index_ok
        nontrivial = int(numpy.count_nonzero(mx | my))
        return bad_masked, bad_index, cx, cy


def shape_class(ref, desc):
    if 'name' in desc:
        return desc['name']
    if ref.ncol == 1 and ref.nrow == 1:
        return 'single-cell-extent'
    if ref.ncol == 1:
        return 'one-column'
    if ref.nrow == 1:
        return 'one-row'
    return 'general'


def axis_probes(b, u, dh, K):
    ext = numpy.append(b, u)
    w = floats.window_vec(ext, K).ravel()
    mids = b + dh / 2
    extra = numpy.array([b[0] - dh / 2, b[0] - dh, u + dh / 2, u + dh, -1e6, 1e6])
    # fixed ABSOLUTE distances below every boundary (the reference decides with its slack whether a probe is in the tolerance zone)
    below = numpy.concatenate([ext - d for d in (1e-14, 1e-13, 1e-12, 1e-10, 1e-7)])
    return numpy.unique(numpy.concatenate([w, mids, extra, below]))


# ------------------------------------------------------------------ judging one region
def judge_region(reg, ref, lons, lats, desc, failures, hsh, counters, cells=None, origins=None, full_api=True):
    """Runs the real APIs on the probe points and compares with the reference partition."""
    from csep.core.catalogs import CSEPCatalog
    evals = 0

    def fail(api, cls, detail, pt=None):
        rep = dict(kind='single', desc=desc, point=pt)
        failures.append(Fail(f'CartesianGrid2D.{api}|{cls}|{shape_class(ref, desc)}', f'{detail} region={desc}', rep))
    try:
        masked = numpy.asarray(reg.get_masked(lons, lats))
    except Exception as e:
        fail('get_masked', type(e).__name__, f'{type(e).__name__}: {e}')
        return 0
    evals += len(lons)
    hsh.update(masked.tobytes())
    idx = numpy.full(len(lons), -1, dtype=numpy.int64)
    if (~masked).any():
        try:
            idx[~masked] = reg.get_index_of(lons[~masked], lats[~masked])
        except ValueError as e:
            fail('get_index_of', 'raises-on-unmasked-points', f'get_index_of raised on points get_masked reports inside: {e}')
            return evals
        evals += int((~masked).sum())
    hsh.update(idx.tobytes())
    bad_m, bad_i, cx, cy = ref.judge(lons, lats, masked, idx)
    if bad_m.any():
        i = int(numpy.nonzero(bad_m)[0][0])
        fail('get_masked', 'inside-point-reported-outside', f'point ({lons[i]!r},{lats[i]!r}) lies in an active cell '
             f'(col {int(cx[i])}, row {int(cy[i])}) but is masked [{int(bad_m.sum())} such probes]', [float(lons[i]), float(lats[i])])
    if bad_i.any():
        i = int(numpy.nonzero(bad_i)[0][0])
        fail('get_index_of', 'wrong-cell-or-outside-point-accepted',
             f'point ({lons[i]!r},{lats[i]!r}) -> cell index {int(idx[i])}; reference (col {int(cx[i])}, row {int(cy[i])}) '
             f'[{int(bad_i.sum())} such probes]', [float(lons[i]), float(lats[i])])
    if not full_api:
        return evals
    # --- the same points handed over in other legitimate forms: byte-swapped (big-endian) float64 arrays, Python lists
    ins = ~masked
    if ins.any():
        for form, cv in (('big-endian-float64', lambda a: a.astype('>f8')), ('list', lambda a: [float(x) for x in a])):
            try:
                m2 = numpy.asarray(reg.get_masked(cv(lons), cv(lats)))
                i2 = numpy.asarray(reg.get_index_of(cv(lons[ins]), cv(lats[ins])))
                evals += 2
                if not numpy.array_equal(m2, masked) or not numpy.array_equal(i2, idx[ins]):
                    k = int(numpy.nonzero(i2 != idx[ins])[0][0]) if len(i2) == int(ins.sum()) and (i2 != idx[ins]).any() else 0
                    fail('get_index_of', f'result-depends-on-argument-form:{form}', f'{int((i2 != idx[ins]).sum()) if len(i2) == int(ins.sum()) else "?"} of {int(ins.sum())} '
                         f'points get another cell when given as {form}; first: ({lons[ins][k]!r},{lats[ins][k]!r})', [float(lons[ins][k]), float(lats[ins][k])])
            except Exception as e:
                fail('get_index_of', f'{type(e).__name__}:{form}', f'{type(e).__name__}: {e}')
    # --- cross-API agreement (exact, tolerance-free) ---------------------------------------------
    # get_index_of raises iff some point of the call is masked: one call per distinct latitude
    for lat in numpy.unique(lats):
        sel = lats == lat
        try:
            r = reg.get_index_of(lons[sel], lats[sel])
            raised = False
        except ValueError:
            raised = True
        evals += 1
        if raised != bool(masked[sel].any()):
            fail('get_index_of', 'raise-disagrees-with-get_masked', f'lat={lat!r}: raised={raised} masked.any={bool(masked[sel].any())}')
            break
        if not raised and not numpy.array_equal(r, idx[sel]):
            fail('get_index_of', 'batch-split-dependent', f'lat={lat!r}')
            break
    # scalar == vector on the boundary probes (+-1 ulp)
    sc = _scalar_subset(lons, lats, ref)
    for i in sc:
        lo, la = float(lons[i]), float(lats[i])
        try:
            g = int(reg.get_index_of(lo, la))
            sm = False
        except ValueError:
            g, sm = -1, True
        evals += 1
        if sm != bool(masked[i]) or (not sm and g != idx[i]):
            fail('get_index_of', 'scalar-differs-from-vector', f'point ({lo!r},{la!r}): scalar -> {"ValueError" if sm else g}, '
                 f'vector -> masked={bool(masked[i])} idx={int(idx[i])}', [lo, la])
            break
    # get_location_of returns the polygon whose origin is the cell's origin
    if origins is not None and (~masked).any():
        u = numpy.unique(idx[~masked])
        polys = reg.get_location_of(u)
        evals += 1
        for k, p in zip(u, polys):
            if tuple(p.origin) != tuple(origins[int(k)]):
                fail('get_location_of', 'wrong-polygon', f'index {int(k)} -> origin {p.origin}, expected {origins[int(k)]}')
                break
    # get_cartesian(arange) reproduces the index map, NaN exactly at inactive positions
    n = len(reg.polygons)
    cart = reg.get_cartesian(numpy.arange(n, dtype=float))
    evals += 1
    want = numpy.where(ref.active[1:-1, 1:-1], ref.index[1:-1, 1:-1].astype(float), numpy.nan)
    if cart.shape != want.shape or not numpy.array_equal(numpy.isnan(cart), numpy.isnan(want)) or \
            not numpy.array_equal(numpy.nan_to_num(cart, nan=-1.0), numpy.nan_to_num(want, nan=-1.0)):
        fail('get_cartesian', 'index-map-differs', f'get_cartesian(arange) = {cart.tolist()} expected {want.tolist()}')
    hsh.update(numpy.nan_to_num(cart, nan=-1.0).tobytes())
    # catalog level: filter_spatial keeps exactly the unmasked events; counts = bincount of indices
    arr = numpy.zeros(len(lons), dtype=CSEPCatalog.dtype)
    arr['longitude'] = lons
    arr['latitude'] = lats
    arr['magnitude'] = 5.0
    arr['origin_time'] = numpy.arange(len(lons))
    for in_place in (False, True):
        cat = CSEPCatalog(data=arr.copy(), region=reg)
        out = cat.filter_spatial(in_place=in_place)
        evals += 1
        kept = out.catalog['origin_time']
        if not numpy.array_equal(kept, numpy.nonzero(~masked)[0]):
            fail('filter_spatial', 'kept-events-differ-from-unmasked', f'in_place={in_place}: kept {len(kept)} events, {int((~masked).sum())} unmasked')
            break
        if in_place and out is not cat:
            fail('filter_spatial', 'in-place-returns-other-object', '')
    # history: the SAME catalog object is first gridded on a twin region (same cells and name, other mask flags, so that the
    # two regions have equal dictionary forms) and on a shifted region, then re-bound to this region: results must be those
    # of this region (no index may survive the re-binding)
    if cells is not None and origins is not None:
        all1 = fixtures.cartesian_region(origins, ref.dh, mask=[1] * n, name=reg.name)       # equal dictionary form, every cell active
        shifted = fixtures.cartesian_region([(x + ref.dh, y) for x, y in origins], ref.dh, name=reg.name)
        in_any = ~numpy.asarray(all1.get_masked(lons, lats))
        in_both = ~masked & ~numpy.asarray(shifted.get_masked(lons, lats))
        for other, sel, label in ((all1, in_any, 'a twin region (same cells and name, all flags 1)'), (shifted, in_both, 'a shifted region')):
            if not sel.any():
                continue
            hc = CSEPCatalog(data=arr[sel].copy(), region=other)
            for call in ('spatial_counts', 'spatial_event_probability', 'get_spatial_idx'):
                try:
                    getattr(hc, call)()
                except Exception:
                    pass
            hc.region = reg
            must_raise = bool(masked[sel].any())
            try:
                got_c = hc.spatial_counts()
                got_p = hc.spatial_event_probability()
                got_i = hc.get_spatial_idx()
                evals += 3
                if must_raise:
                    fail('spatial_counts', 'stale-after-rebinding-the-catalog-to-another-region',
                         f'catalog gridded on {label}, then catalog.region = this region: events in inactive cells were counted ({numpy.asarray(got_c).tolist()}) instead of rejected')
                else:
                    want_c = numpy.bincount(idx[sel], minlength=n).astype(float)
                    if not (numpy.array_equal(got_c, want_c) and numpy.array_equal(got_p, (want_c > 0).astype(float)) and numpy.array_equal(got_i, idx[sel])):
                        fail('spatial_counts', 'stale-after-rebinding-the-catalog-to-another-region',
                             f'catalog gridded on {label}, then catalog.region = this region: counts {numpy.asarray(got_c).tolist()} expected {want_c.tolist()}')
            except ValueError:
                evals += 1
                if not must_raise:
                    fail('spatial_counts', 'ValueError-after-rebinding', 'all events lie in active cells of this region')
            except Exception as e:
                fail('spatial_counts', f'{type(e).__name__}-after-rebinding', f'{type(e).__name__}: {e}')
    cat = CSEPCatalog(data=arr[~masked].copy(), region=reg)
    want_counts = numpy.bincount(idx[~masked], minlength=n).astype(float)
    try:
        sc_ = cat.spatial_counts()
        pr = cat.spatial_event_probability()
        evals += 2
        if not numpy.array_equal(sc_, want_counts):
            fail('spatial_counts', 'differs-from-bincount-of-indices', f'{sc_.tolist()} vs {want_counts.tolist()}')
        if not numpy.array_equal(pr, (want_counts > 0).astype(float)):
            fail('spatial_event_probability', 'differs-from-occupancy', f'{pr.tolist()} vs {(want_counts > 0).tolist()}')
        hsh.update(sc_.tobytes())
    except Exception as e:
        fail('spatial_counts', type(e).__name__, f'{type(e).__name__}: {e}')
    return evals


def _scalar_subset(lons, lats, ref):
    """indices of probes whose lon and lat are each exactly on a boundary or one ulp from it (+ one interior)"""
    def near(p, b, u):
        ext = numpy.append(b, u)
        d = numpy.abs(p[:, None] - ext[None, :])
        return (d <= numpy.spacing(numpy.abs(ext))[None, :] * 1.0).any(axis=1)
    sel = near(lons, ref.bx, ref.ux) & near(lats, ref.by, ref.uy)
    out = numpy.nonzero(sel)[0]
    if len(out) > 36:
        out = out[::max(1, len(out) // 36)]     # fixed stride (deterministic), scalar calls are slow
    return list(out)


def build(desc):
    """desc -> (region, RefLattice, origins, cells)"""
    dh = desc['dh']
    ax, ay = desc['anchor']
    nx, ny = desc['shape']
    bx = axis_values(ax, dh, nx, desc['style'])
    by = axis_values(ay, dh, ny, desc['style'])
    cells = [tuple(c) for c in desc['cells']]
    origins = [(bx[c], by[r]) for c, r in cells]
    reg = fixtures.cartesian_region(origins, dh, mask=desc['flags'])
    ref = RefLattice(cells, bx, by, dh, desc['flags'])
    return reg, ref, origins, cells


def probes_2d(ref, K):
    px = axis_probes(ref.bx, ref.ux, ref.dh, K)
    py = axis_probes(ref.by, ref.uy, ref.dh, K)
    lons, lats = numpy.meshgrid(px, py)
    return lons.ravel(), lats.ravel()


def probes_axiswise(ref, K):
    px = axis_probes(ref.bx, ref.ux, ref.dh, K)
    py = axis_probes(ref.by, ref.uy, ref.dh, K)
    fx = numpy.concatenate([ref.bx + ref.dh / 2, ref.bx, [ref.ux]])
    fy = numpy.concatenate([ref.by + ref.dh / 2, ref.by, [ref.uy]])
    a = numpy.array([(x, y) for y in fy for x in px])
    b = numpy.array([(x, y) for x in fx for y in py])
    pts = numpy.concatenate([a, b])
    return pts[:, 0].copy(), pts[:, 1].copy()


def shipped_region(name):
    from csep.core import regions
    if name.startswith('global_'):
        return regions.global_region(dh=float(name.split('_')[1]))
    return getattr(regions, name)()


def run_shipped(case, failures, hsh, counters):
    reg = shipped_region(case['name'])
    org = reg.origins()
    dh = float(reg.dh)
    x0, y0 = org[:, 0].min(), org[:, 1].min()
    cols = numpy.rint((org[:, 0] - x0) / dh).astype(int)
    rows = numpy.rint((org[:, 1] - y0) / dh).astype(int)
    ncol, nrow = cols.max() + 1, rows.max() + 1
    # column/row boundaries from the cells' own origins (must be unique per column for a lattice)
    bx = numpy.full(ncol, numpy.nan)
    by = numpy.full(nrow, numpy.nan)
    for c, x in zip(cols, org[:, 0]):
        bx[c] = x if numpy.isnan(bx[c]) else min(bx[c], x)
    for r, y in zip(rows, org[:, 1]):
        by[r] = y if numpy.isnan(by[r]) else min(by[r], y)
    spread = max(numpy.abs(org[:, 0] - bx[cols]).max(), numpy.abs(org[:, 1] - by[rows]).max())
    assert spread == 0.0, f'cells of one column/row have different origin floats (spread {spread})'
    assert not numpy.isnan(bx).any() and not numpy.isnan(by).any()
    cells = list(zip(cols.tolist(), rows.tolist()))
    ref = RefLattice(cells, {c: bx[c] for c in range(ncol)}, {r: by[r] for r in range(nrow)}, dh, None)
    K = case['K']
    wx = floats.window_vec(numpy.append(bx, ref.ux), K)            # (ncol+1, 2K+1)
    wy = floats.window_vec(numpy.append(by, ref.uy), K)
    midx = bx + dh / 2
    midy = by + dh / 2
    evals = 0
    # for every bounding-box lattice position: corner, centre, +-K windows on each axis
    for r in range(nrow + 1):
        rowlat_mid = midy[min(r, nrow - 1)]
        lons = []
        lats = []
        # x windows at this row's midpoint and at its lower boundary
        for lat in ([rowlat_mid] if r < nrow else []) + [float(numpy.append(by, ref.uy)[r])]:
            lons.append(wx.ravel())
            lats.append(numpy.full(wx.size, lat))
        # y window of this row boundary at every column midpoint and every column boundary
        for xv in numpy.concatenate([midx, numpy.append(bx, ref.ux)]):
            lons.append(numpy.full(wy.shape[1], xv))
            lats.append(wy[r])
        if r < nrow:
            lons.append(midx)
            lats.append(numpy.full(ncol, rowlat_mid))
        lo = numpy.concatenate(lons)
        la = numpy.concatenate(lats)
        evals += judge_region(reg, ref, lo, la, dict(name=case['name'], row=r), failures, hsh, counters, full_api=False)
        if len(failures) > 20:
            break
    counters['shipped_lattice_positions'] = counters.get('shipped_lattice_positions', 0) + int((ncol + 1) * (nrow + 1))
    return evals, ncol * nrow


def run_case(case):
    failures = []
    hsh = hashlib.sha1()
    counters = {}
    evals = states = nontriv = 0
    sample = None
    if case['kind'] == 'family':
        nx, ny = case['nx'], case['ny']
        for cells in subsets_for(nx, ny, case['all_subsets']):
            for oname, ordered in orders(cells):
                for mname, flags in masks(len(ordered)):
                    if mname != 'none' and oname != 'row-major' and len(ordered) > 4:
                        continue      # flags x orders fully crossed only for small cell sets
                    desc = dict(dh=case['dh'], anchor=case['anchor'], style=case['style'], shape=[nx, ny],
                                cells=[list(c) for c in ordered], flags=flags, order=oname, mask=mname)
                    reg, ref, origins, cl = build(desc)
                    lons, lats = probes_2d(ref, case['K'])
                    full = (oname == 'row-major' and mname in ('none', 'checker')) or (mname == 'none' and len(ordered) <= 4)
                    evals += judge_region(reg, ref, lons, lats, desc, failures, hsh, counters, cl, origins, full_api=full)
                    if case.get('Kaxis') and oname == 'row-major' and mname in ('none', 'checker'):
                        lo, la = probes_axiswise(ref, case['Kaxis'])
                        evals += judge_region(reg, ref, lo, la, desc, failures, hsh, counters, cl, origins, full_api=False)
                    states += 1
                    if len(cells) < nx * ny or flags is not None and 0 in flags or ref.ncol == 1 or ref.nrow == 1:
                        nontriv += 1
                    if sample is None:
                        sample = dict(lattice=desc, n_probes=len(lons), probe_example=[[float(lons[i]), float(lats[i])] for i in (0, len(lons) // 2)])
                    if len(failures) > 40:
                        break
    elif case['kind'] == 'shipped':
        e, st = run_shipped(case, failures, hsh, counters)
        evals += e
        states += st
        nontriv += 1
        sample = dict(shipped=case['name'], K=case['K'])
    elif case['kind'] == 'single':
        desc = case['desc']
        if 'name' in desc:
            run_shipped(dict(name=desc['name'], K=2), failures, hsh, counters)
        else:
            reg, ref, origins, cl = build(desc)
            lons, lats = probes_2d(ref, 4)
            judge_region(reg, ref, lons, lats, desc, failures, hsh, counters, cl, origins)
        evals = states = 1
        sample = case
    # one failure per signature per case is enough
    seen = set()
    uniq = []
    for f in failures:
        if f['signature'] not in seen:
            seen.add(f['signature'])
            uniq.append(f)
    return result(evals=evals, states=states, transitions=evals, nontrivial=nontriv, failures=uniq, digest=hsh.hexdigest(),
                  counters=counters, sample=sample)
