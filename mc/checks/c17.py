"""C17 Quadtree grids tile the globe and locate points in their containing tile."""
import hashlib
import itertools
import math
import os

import numpy

from mc import floats, space
from mc.engine import Fail, result
from mc.ref import ref_quadtree as rq

ID = 'C17'
RULE = ('(1) from_single_resolution(zoom) for every zoom 1..6 (thorough 1..8): quadkeys, closed-form bounds, exact tiling '
        'in tile space, ALL pairs of cells tested for float overlap, bbox, areas; (2) from_catalog for EVERY multiset of '
        '<=3 (thorough <=4) events over 12 positions (tile corners/centres of depth 1..3, both antimeridian sides, both '
        'latitude limits, beyond both limits) x threshold {0,1,2,3} x max zoom {1,2,3,4}, plus direct _create_tile calls '
        'from deeper start tiles; (3) from_quadkeys for all 16 complete depth<=2 tilings and every sub-grid obtained by '
        'deleting <=2 (thorough <=3) cells, given as list and ndarray (thorough: also reversed order, all 83521 complete '
        'depth<=3 tilings), a deep staircase tiling, and the shipped California grid (12540 cells); (4) for every grid: '
        'get_index_of on every cell\'s four corners, centre and the complete (2K+1)^2 ulp windows (K=1, thorough K=2) '
        'around its SW and NE corners, plus a 9x12 lattice around lon +-180, lat +-85.0511287798066, +-89, +-90, +-0.0, '
        'in scalar (float, numpy.float64) and sequence (list, ndarray) form, compared with brute-force half-open '
        'containment. Distinct = distinct (configuration, probe point) pairs plus distinct configurations (probe points '
        'are de-duplicated per grid; configurations are enumerated without repetition). A (grid, probe) pair is '
        'non-trivial iff the probe has a coordinate exactly on a cell edge, or lies in an ulp window of a corner, or lies '
        'on/outside the antimeridian or a latitude limit; a catalog configuration is non-trivial iff refinement split a '
        'cell, or an event lies on a tile edge of depth <= max zoom, or an event lies in no cell.')
ASSUMPTIONS = [
    'reference = closed-form Web-Mercator bounds from quadkeys in plain Python (math only); bounds are accepted within '
    '1e-12 relative tolerance; ownership of a probe is judged exactly and only where reference bounds and the region\'s '
    'own bounds give the same brute-force answer (otherwise counted in ambiguous_skipped; 0 on the unchanged tree)',
    'earth radius 6371 km (spherical) for "the area of the covered latitude band"; per-cell areas are judged assuming '
    'longitudinal symmetry (a cell spanning 1/2^z of all longitudes holds 1/2^z of its latitude band); rtol 1e-9',
    'a sequence query containing points that lie in no cell may omit those points from the returned index array '
    '(library behaviour) or flag them with a non-index value: both are accepted as "mapped to no cell"',
    'scalar queries use Python int/float and numpy.float64 only; numpy integer scalars, 0-d arrays and the empty list '
    'are not query points of the property and are not judged (observed behaviour is recorded in counters)',
    'for grids with more than 300 cells brute-force containment is evaluated with NumPy elementwise comparisons '
    '(same predicate, all cells) and cross-checked against the pure-Python scan on every 97th probe',
    'coverage between probed points relies on: exact tiling of the quadkeys in integer tile space + bounds equal to the '
    'strictly monotone closed form (asserted) + no gap/overlap at any probed corner window',
]

L = rq.LAT_LIMIT
SMALL = 300            # grids up to this size use the pure-Python reference scan for every probe
MAX_FAILS_PER_SIG = 3  # per case


# ============================================================================= enumeration
def positions():
    """The 12 event positions (lon, lat)."""
    def centre(qk):
        w, s, e, n = rq.bounds(qk)
        return [(w + e) / 2, (s + n) / 2]
    return [
        [0.0, 0.0],                                   # corner shared by the four depth-1 tiles
        [rq.lon_of(1, 2), rq.lat_of(1, 2)],           # depth-2 corner (-90, 66.51..)
        [rq.lon_of(5, 3), rq.lat_of(3, 3)],           # depth-3 corner (45, 40.97..)
        centre('3'), centre('21'), centre('120'),     # lon/lat centres of depth 1, 2, 3 tiles
        [-180.0, 10.0], [180.0, 10.0],                # antimeridian: west side is in the grid, east side is not
        [30.0, L], [30.0, -L],                        # latitude limits: north is excluded, south is included
        [30.0, 89.0], [-100.0, -89.0],                # beyond the limits
    ]


def tilings_depth2():
    out = []
    for mask in range(16):
        cells = []
        for d in '0123':
            if (mask >> int(d)) & 1:
                cells += [d + c for c in '0123']
            else:
                cells.append(d)
        out.append(cells)
    out.sort(key=len)
    return out


def quadrant_options_depth3(d):
    """Every complete tiling of quadrant d with depth <= 3 (17 options)."""
    opts = [[d]]
    for mask in range(16):
        cells = []
        for c in '0123':
            if (mask >> int(c)) & 1:
                cells += [d + c + e for e in '0123']
            else:
                cells.append(d + c)
        opts.append(cells)
    return opts


def staircase(depth):
    """Complete tiling in which tile '1'*k is split at every level k < depth."""
    return [('1' * k) + c for k in range(depth) for c in '023'] + ['1' * depth]


def subgrids(cells, ndel_min, ndel_max):
    n = len(cells)
    for k in range(ndel_min, ndel_max + 1):
        if k >= n:
            break
        for dele in itertools.combinations(range(n), k):
            s = set(dele)
            yield [c for i, c in enumerate(cells) if i not in s]


def single_cases(z, K):
    n = 4 ** z
    if n <= 1024:
        yield dict(kind='single', zoom=z, K=K)
    else:
        step = 512 if n <= 4096 else 256
        for lo in range(0, n, step):
            yield dict(kind='single', zoom=z, K=K, block=[lo, min(n, lo + step)])


def catalog_cases(pos, sizes, K, per_case):
    T = [0, 1, 2, 3]
    Z = [1, 2, 3, 4]
    for lo, hi in sizes:
        for chunk in space.chunks(space.multisets(list(range(len(pos))), lo, hi), per_case):
            yield dict(kind='catalog', msets=[[pos[i] for i in m] for m in chunk], thresholds=T, zooms=Z, K=K)


def cases(tier, seed):
    quick = (tier == 'quick')
    K = 1 if quick else 2
    pos = positions()
    yield dict(kind='misc')
    for z in range(1, 6):
        yield from single_cases(z, K)
    # from_quadkeys: the 16 complete depth<=2 tilings, then their sub-grids
    til = tilings_depth2()
    yield dict(kind='quadkeys', grids=til, forms=['list', 'array'], K=K, complete=True)
    for t in til:
        for chunk in space.chunks(subgrids(t, 1, 1), 8):
            yield dict(kind='quadkeys', grids=chunk, forms=['list', 'array'], K=K)
    yield dict(kind='quadkeys', grids=[staircase(12 if quick else 20)], forms=['list', 'array'], K=K, complete=True)
    # from_catalog
    yield from catalog_cases(pos, [(0, 2)], K, 4)
    for t in til:
        for chunk in space.chunks(subgrids(t, 2, 2), 8):
            yield dict(kind='quadkeys', grids=chunk, forms=['list'] if quick else ['list', 'array'], K=K)
    yield from catalog_cases(pos, [(3, 3)], K, 4)
    yield from single_cases(6, K)
    # shipped California grid
    step = 100
    for lo in range(0, 12540, step):
        yield dict(kind='california', K=K, block=[lo, min(12540, lo + step)])
    if quick:
        # seed-selected additional complete block of the thorough space
        b = seed % 4
        if b == 0:
            yield from catalog_cases(pos[:6], [(4, 4)], K, 4)
        elif b == 1:
            yield from catalog_cases(pos[6:], [(4, 4)], K, 4)
        elif b == 2:
            for t in [t for t in til if len(t) <= 10]:
                for chunk in space.chunks(subgrids(t, 3, 3), 8):
                    yield dict(kind='quadkeys', grids=chunk, forms=['list'], K=K)
        else:
            yield from single_cases(7, K)
        return
    # ---- thorough only
    yield from catalog_cases(pos, [(4, 4)], K, 4)
    for t in til:
        for chunk in space.chunks(subgrids(t, 3, 3), 8):
            yield dict(kind='quadkeys', grids=chunk, forms=['list', 'array'], K=K)
    for t in til:
        for chunk in space.chunks(subgrids(t, 0, 2), 8):
            yield dict(kind='quadkeys', grids=[g[::-1] for g in chunk], forms=['array'], K=1)
    for chunk in space.chunks(itertools.product(range(17), repeat=4), 40):
        yield dict(kind='tilings3', picks=[list(p) for p in chunk], K=0)
    yield from single_cases(7, 1)
    yield from single_cases(8, 1)


# ============================================================================= helpers
class Sink:
    """Collects failures (capped per signature), counters and the observation digest of one case."""

    def __init__(self):
        self.failures = []
        self.per_sig = {}
        self.h = hashlib.sha1()
        self.c = {}
        self.evals = 0
        self.states = 0
        self.nontrivial = 0
        self.grids = set()

    def fail(self, sig, detail, case):
        k = self.per_sig.get(sig, 0)
        self.per_sig[sig] = k + 1
        if k < MAX_FAILS_PER_SIG:
            self.failures.append(Fail(sig, detail, case))

    def count(self, name, n=1):
        self.c[name] = self.c.get(name, 0) + n

    def obs(self, *xs):
        for x in xs:
            if isinstance(x, numpy.ndarray):
                self.h.update(str(x.dtype).encode())
                self.h.update(numpy.ascontiguousarray(x).tobytes())
            else:
                self.h.update(repr(x).encode())
            self.h.update(b'|')


def close(a, b, rel=1e-12):
    return math.isclose(a, b, rel_tol=rel, abs_tol=0.0) or (a == b)


_ASSERTED = set()


def assert_model(depth):
    """Harness assertion on the reference model itself (not a judgement of the library)."""
    depth = min(depth, 10)
    if depth not in _ASSERTED:
        if not rq.edges_consistent(depth):
            raise AssertionError('reference closed form is not monotone/consistent at depth %d' % depth)
        _ASSERTED.add(depth)


class Ctx:
    """A built region with everything needed to judge it."""

    def __init__(self, region, source):
        self.region = region
        self.source = source
        self.quadkeys = [str(q) for q in region.quadkeys]
        self.B = numpy.array(region.bounds, dtype=numpy.float64)
        self.n = len(self.quadkeys)
        self.Bl = [tuple(r) for r in self.B.tolist()]
        self.R = rq.all_bounds(self.quadkeys)
        self.Rnp = numpy.array(self.R, dtype=numpy.float64).reshape(-1, 4)
        self.shape_ok = (self.B.shape == (self.n, 4))
        self.bit_identical = self.shape_ok and self.Bl == self.R
        self.lon_edges = set(self.B[:, 0].tolist()) | set(self.B[:, 2].tolist()) if self.shape_ok else set()
        self.lat_edges = set(self.B[:, 1].tolist()) | set(self.B[:, 3].tolist()) if self.shape_ok else set()
        self.prefix_free = rq.prefix_free(self.quadkeys)
        self.complete = self.prefix_free and rq.is_complete_tiling(self.quadkeys)
        assert_model(max(len(q) for q in self.quadkeys))

    def key(self):
        return hashlib.sha1(('\n'.join(self.quadkeys)).encode() + self.B.tobytes()).hexdigest()


_WIN = {}


def win(x, K):
    k = (x, K)
    w = _WIN.get(k)
    if w is None:
        if len(_WIN) > 400000:
            _WIN.clear()
        w = [float(v) for v in floats.window(x, K)] if K > 0 else [x]
        _WIN[k] = w
    return w


def global_probes():
    lons = win(-180.0, 1) + win(180.0, 1) + [0.0, -0.0, 179.0]
    lats = win(L, 1) + win(-L, 1) + [89.0, -89.0, 90.0, -90.0, 0.0, -0.0]
    return [(lo, la) for lo in lons for la in lats]


def probe_points(ctx, cells, K, with_global):
    """Ordered {(lon, lat): (generating cell, kind)} without duplicates."""
    P = {}

    def add(p, i, kind):
        if p not in P:
            P[p] = (i, kind)

    for i in cells:
        w, s, e, n = ctx.Bl[i]
        add((w, s), i, 'corner')
        add((e, n), i, 'corner')
        add((w, n), i, 'corner')
        add((e, s), i, 'corner')
        add(((w + e) / 2, (s + n) / 2), i, 'centre')
    if K > 0:
        for i in cells:
            w, s, e, n = ctx.Bl[i]
            for lo in win(w, K):
                for la in win(s, K):
                    add((lo, la), i, 'window')
            for lo in win(e, K):
                for la in win(n, K):
                    add((lo, la), i, 'window')
    if with_global:
        for p in global_probes():
            add(p, 0, 'global')
    return P


def pclass(ctx, p, kind):
    lon, lat = p
    if not (-180.0 <= lon < 180.0 and -L <= lat < L):
        return 'outside-globe'
    if lon in ctx.lon_edges or lat in ctx.lat_edges:
        return 'on-edge'
    if kind == 'window':
        return 'near-edge'
    return 'interior'


def np_containing(Bnp, lons, lats):
    """Vectorised brute force: for each point the number of containing cells and the first one (-1 if none)."""
    m = len(lons)
    cnt = numpy.zeros(m, dtype=numpy.int64)
    first = numpy.full(m, -1, dtype=numpy.int64)
    W, S, E, N = Bnp[:, 0], Bnp[:, 1], Bnp[:, 2], Bnp[:, 3]
    step = max(1, 4000000 // max(1, len(W)))
    for a in range(0, m, step):
        lo = lons[a:a + step, None]
        la = lats[a:a + step, None]
        inside = (lo >= W[None, :]) & (la >= S[None, :]) & (lo < E[None, :]) & (la < N[None, :])
        c = inside.sum(axis=1)
        cnt[a:a + step] = c
        f = inside.argmax(axis=1)
        first[a:a + step] = numpy.where(c > 0, f, -1)
    return cnt, first


def np_overlap_pairs(Bnp, lo, hi):
    """Overlapping pairs (i, j), i in [lo, hi), j != i, over all cells j (vectorised brute force)."""
    W, S, E, N = Bnp[:, 0], Bnp[:, 1], Bnp[:, 2], Bnp[:, 3]
    out = []
    step = max(1, 4000000 // max(1, len(W)))
    for a in range(lo, hi, step):
        b = min(hi, a + step)
        ov = (numpy.maximum(W[a:b, None], W[None, :]) < numpy.minimum(E[a:b, None], E[None, :])) & \
             (numpy.maximum(S[a:b, None], S[None, :]) < numpy.minimum(N[a:b, None], N[None, :]))
        ov[numpy.arange(b - a), numpy.arange(a, b)] = False
        ii, jj = numpy.nonzero(ov)
        out += [(int(i) + a, int(j)) for i, j in zip(ii[:5], jj[:5])]
    return out


NOCELL = 'no-cell'
BAD = 'bad'


def norm_one(v, n):
    """Normalise one returned value to a cell index, NOCELL, or (BAD, text)."""
    if v is None:
        return NOCELL
    if isinstance(v, numpy.ndarray):
        if v.size == 0:
            return NOCELL
        if v.size == 1:
            v = v.reshape(-1)[0]
        else:
            return (BAD, 'array of size %d' % v.size)
    if isinstance(v, (bool, numpy.bool_)):
        return (BAD, repr(v))
    if isinstance(v, (int, numpy.integer)):
        v = int(v)
        return v if 0 <= v < n else NOCELL
    if isinstance(v, (float, numpy.floating)):
        if v != v:
            return NOCELL
        if float(v).is_integer():
            v = int(v)
            return v if 0 <= v < n else NOCELL
    if numpy.ma.is_masked(v):
        return NOCELL
    return (BAD, repr(v))


def judge_value(got, exp):
    """None if acceptable else the failure class."""
    if isinstance(got, tuple):
        return 'bad-type'
    if exp is None:
        return None if got == NOCELL else 'phantom-cell'
    if got == NOCELL:
        return 'missed-cell'
    return None if got == exp else 'wrong-cell'


# ============================================================================= judging a grid
def judge_grid_level(ctx, sink, mk_case, expect_quadkeys=None, expect_complete=False, areas=True):
    src = ctx.source
    sink.obs(ctx.quadkeys, ctx.B)
    # quadkeys
    if expect_quadkeys is not None:
        if sorted(ctx.quadkeys) != sorted(expect_quadkeys):
            sink.fail(f'{src}|quadkeys|any', f'quadkeys differ from the expected set: got {ctx.quadkeys[:8]}.. '
                      f'({ctx.n}) expected {list(expect_quadkeys)[:8]}.. ({len(expect_quadkeys)})', mk_case(0))
    if not ctx.shape_ok:
        sink.fail('csep.core.regions.quadtree_grid_bounds|shape|any', f'bounds shape {ctx.B.shape} for {ctx.n} quadkeys',
                  mk_case(0))
        return False
    # bounds vs closed form
    nbad = 0
    for i in range(ctx.n):
        if ctx.Bl[i] != ctx.R[i]:
            if not all(close(a, b) for a, b in zip(ctx.Bl[i], ctx.R[i])):
                nbad += 1
                sink.fail('csep.core.regions.quadtree_grid_bounds|value|any',
                          f'bounds of quadkey {ctx.quadkeys[i]}: got {ctx.Bl[i]} expected {ctx.R[i]} (west, south, east, north)',
                          mk_case(i))
    sink.evals += 1
    sink.count('cells_bounds_judged', ctx.n)
    sink.count('grids_bounds_bit_identical' if ctx.bit_identical else 'grids_bounds_within_tolerance_only')
    # tiling in tile space
    if expect_complete:
        if not ctx.prefix_free:
            sink.fail(f'{src}|tiles-intersect|any', f'quadkeys are not prefix-free: {ctx.quadkeys[:12]}..', mk_case(0))
        elif not ctx.complete:
            s, g = rq.tile_measure(ctx.quadkeys)
            sink.fail(f'{src}|tiles-do-not-cover|any', f'tiles cover {s}/{g} of the globe: {ctx.quadkeys[:12]}..', mk_case(0))
    # bbox
    try:
        bb = tuple(float(v) for v in ctx.region.get_bbox())
    except Exception as e:
        sink.fail(f'QuadtreeGrid2D.get_bbox|{type(e).__name__}|{src}', f'{type(e).__name__}: {e}', mk_case(0))
        bb = None
    sink.evals += 1
    if bb is not None:
        sink.obs(bb)
        eb = rq.bbox(ctx.R)
        if not (len(bb) == 4 and all(close(a, b) for a, b in zip(bb, eb))):
            sink.fail('QuadtreeGrid2D.get_bbox|value|any', f'{src}: bbox {bb} expected {eb} (lon min, lon max, lat min, lat max)',
                      mk_case(0))
        if ctx.complete and eb != (-180.0, 180.0, -L, L):
            raise AssertionError('reference bbox of a complete tiling is %r' % (eb,))
    # areas
    if areas:
        try:
            # history: the caller normalises the array of an EARLIER request in place (areas as fractions of the total);
            # the request judged below is the next one
            a0 = ctx.region.get_cell_area()
            if isinstance(a0, numpy.ndarray) and a0.size and a0.dtype.kind == 'f':
                a0 /= a0.sum()
            A = [float(a) for a in ctx.region.get_cell_area()]
        except Exception as e:
            sink.fail(f'QuadtreeGrid2D.get_cell_area|{type(e).__name__}|{src}', f'{type(e).__name__}: {e}', mk_case(0))
            A = None
        sink.evals += 1
        if A is not None:
            sink.obs(A)
            EA = [rq.cell_area(b) for b in ctx.R]
            if len(A) != ctx.n:
                sink.fail(f'QuadtreeGrid2D.get_cell_area|length|{src}', f'{len(A)} areas for {ctx.n} cells', mk_case(0))
            else:
                cell_bad = False
                for i in range(ctx.n):
                    if not math.isclose(A[i], EA[i], rel_tol=1e-9):
                        cell_bad = True
                        sink.fail('QuadtreeGrid2D.get_cell_area|cell-area|any',
                                  f'{src}: area of {ctx.quadkeys[i]} bounds {ctx.R[i]}: got {A[i]!r} expected {EA[i]!r} km2', mk_case(i))
                tot, etot = math.fsum(A), math.fsum(EA)
                if expect_complete and ctx.complete:
                    band = rq.band_area(-L, L)
                    if not math.isclose(etot, band, rel_tol=1e-9):
                        raise AssertionError('reference cell areas of a complete tiling do not add up to the band area')
                    etot = band
                # the sum is reported on its own only when every single cell area was acceptable
                if not cell_bad and not math.isclose(tot, etot, rel_tol=1e-9):
                    sink.fail('QuadtreeGrid2D.get_cell_area|sum|any',
                              f'{src}: sum of cell areas {tot!r} km2, the covered latitude band(s) have {etot!r} km2', mk_case(0))
                sink.count('cell_areas_judged', ctx.n)
    return True


def judge_pairs(ctx, sink, mk_case, lo, hi):
    """Float-space disjointness of the region's own bounds, all pairs with a row in [lo, hi)."""
    src = ctx.source
    if not ctx.prefix_free:
        return
    if ctx.n <= SMALL:
        bad = rq.overlapping_pairs(ctx.Bl) if lo == 0 else []
        npairs = ctx.n * (ctx.n - 1) // 2 if lo == 0 else 0
    else:
        bad = np_overlap_pairs(ctx.B, lo, hi)
        npairs = (hi - lo) * (ctx.n - 1)
    sink.count('cell_pairs_tested_for_overlap', npairs)
    sink.obs(('pairs', lo, hi, bad[:3]))
    for i, j in bad[:3]:
        sink.fail(f'{src}|cells-overlap|any', f'cells {ctx.quadkeys[i]} {ctx.Bl[i]} and {ctx.quadkeys[j]} {ctx.Bl[j]} overlap',
                  mk_case(i))


def judge_probes(ctx, sink, mk_case, cells, K, with_global, forms, light_forms=()):
    """get_index_of on every probe, in every form.  `light_forms` are applied to corner/centre/global probes only."""
    # history: the grid object was used for get_cartesian() (what plotting does) before the lookups
    try:
        ctx.region.get_cartesian(numpy.arange(ctx.n, dtype=float))
    except Exception:
        pass
    src = ctx.source
    region = ctx.region
    P = probe_points(ctx, cells, K, with_global)
    pts = list(P)
    m = len(pts)
    if m == 0:
        return
    n = ctx.n
    # ---- reference answers
    if n <= SMALL:
        exp_impl = [rq.containing(ctx.Bl, lo, la) for lo, la in pts]
        exp_ref = exp_impl if ctx.bit_identical else [rq.containing(ctx.R, lo, la) for lo, la in pts]
        cnt = [len(x) for x in exp_impl]
        first_impl = [x[0] if x else None for x in exp_impl]
        first_ref = [x[0] if x else None for x in exp_ref]
        same = [a == b for a, b in zip(exp_impl, exp_ref)]
    else:
        lons = numpy.array([p[0] for p in pts])
        lats = numpy.array([p[1] for p in pts])
        c1, f1 = np_containing(ctx.B, lons, lats)
        if ctx.bit_identical:
            c2, f2 = c1, f1
        else:
            c2, f2 = np_containing(ctx.Rnp, lons, lats)
        cnt = c1.tolist()
        first_impl = [None if f < 0 else f for f in f1.tolist()]
        first_ref = [None if f < 0 else f for f in f2.tolist()]
        same = [(a == b and ca == cb) for a, b, ca, cb in zip(first_impl, first_ref, cnt, c2.tolist())]
        for k in range(0, m, 97):       # harness cross-check of the vectorised brute force
            pure = rq.containing(ctx.Bl, pts[k][0], pts[k][1])
            if len(pure) != cnt[k] or (pure[0] if pure else None) != first_impl[k]:
                raise AssertionError('vectorised brute force disagrees with the pure-Python scan at %r' % (pts[k],))
    classes = [pclass(ctx, p, P[p][1]) for p in pts]
    sink.states += m
    sink.nontrivial += sum(1 for c in classes if c != 'interior')
    sink.count('probe_points', m)
    for c in classes:
        sink.count('probes_' + c)
    # ---- disjointness / coverage at the probed points (region's own bounds)
    for k in range(m):
        if cnt[k] > 1 and ctx.prefix_free:
            sink.fail(f'{src}|cells-overlap|probe', f'point {pts[k]!r} lies in {cnt[k]} cells of a prefix-free grid', mk_case(P[pts[k]][0]))
        if cnt[k] == 0 and ctx.complete and classes[k] != 'outside-globe':
            sink.fail(f'{src}|gap|probe', f'point {pts[k]!r} inside [-180,180)x[-{L},{L}) lies in no cell of a complete tiling',
                      mk_case(P[pts[k]][0]))
    judged = [same[k] and cnt[k] <= 1 for k in range(m)]
    namb = m - sum(judged)
    if namb:
        sink.count('ambiguous_skipped', namb)
    expected = first_ref

    def report(form, k, fclass, got):
        fc = 'scalar' if form in ('float', 'float64', 'int') else 'array'
        sink.fail(f'QuadtreeGrid2D.get_index_of|{fclass}|{fc}:{classes[k]}',
                  f'{src}: get_index_of({form}) at lon={pts[k][0]!r} lat={pts[k][1]!r}: got {got!r}, brute force says '
                  f'{"no cell" if expected[k] is None else "cell %d %s bounds %r" % (expected[k], ctx.quadkeys[expected[k]], ctx.R[expected[k]])}',
                  mk_case(P[pts[k]][0]))

    light = [k for k in range(m) if P[pts[k]][1] != 'window']
    scalar_bad = set()
    for form in list(forms) + list(light_forms):
        idxs = list(range(m)) if form in forms else light
        if form in ('float', 'float64'):
            conv = float if form == 'float' else numpy.float64
            for k in idxs:
                lo, la = conv(pts[k][0]), conv(pts[k][1])
                try:
                    got = region.get_index_of(lo, la)
                except Exception as e:
                    sink.evals += 1
                    if judged[k]:
                        scalar_bad.add(k)
                        report(form, k, type(e).__name__, f'{type(e).__name__}: {e}')
                    continue
                sink.evals += 1
                g = norm_one(got, n)
                sink.obs(g)
                if judged[k]:
                    fc = judge_value(g, expected[k])
                    if fc:
                        scalar_bad.add(k)
                        report(form, k, fc, got)
            sink.count('points_judged_scalar', sum(1 for k in idxs if judged[k]))
        else:
            xs = [pts[k][0] for k in idxs]
            ys = [pts[k][1] for k in idxs]
            if form == 'ndarray':
                xs, ys = numpy.array(xs), numpy.array(ys)
            try:
                got = region.get_index_of(xs, ys)
            except Exception as e:
                sink.evals += 1
                sink.fail(f'QuadtreeGrid2D.get_index_of|{type(e).__name__}|array:any',
                          f'{src}: get_index_of({form} of {len(idxs)} points): {type(e).__name__}: {e}', mk_case(None))
                continue
            sink.evals += 1
            if not isinstance(got, numpy.ndarray) or got.ndim != 1:
                sink.fail('QuadtreeGrid2D.get_index_of|bad-type|array:any',
                          f'{src}: get_index_of({form} of {len(idxs)} points) returned {type(got).__name__} {got!r:.200}', mk_case(None))
                continue
            sink.obs(got)
            gl = got.tolist()
            if not all(judged[k] for k in idxs):
                sink.count('ambiguous_skipped_array_calls')
                continue
            exp = [expected[k] for k in idxs]
            kept = [e for e in exp if e is not None]
            sink.count('points_judged_array', len(idxs))
            if len(gl) == len(exp) and all(judge_value(norm_one(g, n), e) is None for g, e in zip(gl, exp)):
                continue
            if len(kept) < len(exp) and gl == kept:
                sink.count('array_calls_that_omitted_uncontained_points')
                continue
            # disagreement: find the first point responsible by asking for it alone
            found = False
            if any(k in scalar_bad for k in idxs):
                sink.count('array_call_failures_explained_by_a_scalar_failure')
                continue
            for k in idxs:
                one = ([pts[k][0]], [pts[k][1]])
                if form == 'ndarray':
                    one = (numpy.array(one[0]), numpy.array(one[1]))
                try:
                    g1 = region.get_index_of(*one)
                    fc = judge_value(norm_one(g1, n), expected[k])
                except Exception as e:
                    g1, fc = f'{type(e).__name__}: {e}', type(e).__name__
                sink.evals += 1
                if fc:
                    report(form, k, fc, g1)
                    found = True
                    break
            if not found:
                sink.fail('QuadtreeGrid2D.get_index_of|sequence-misaligned|array:any',
                          f'{src}: get_index_of({form} of {len(idxs)} points) returned {gl[:20]}.. expected {exp[:20]}.. '
                          f'(or without the None entries) although every point alone is located correctly', mk_case(None))


# ============================================================================= case runners
def repo_dir():
    return os.environ.get('VERIF_REPO', '/repo')


_BIG = {}


def build_single(z):
    from csep.core.regions import QuadtreeGrid2D
    key = ('single', z)
    if key in _BIG:
        return _BIG[key]
    try:
        region = QuadtreeGrid2D.from_single_resolution(z)
        out = (Ctx(region, 'QuadtreeGrid2D.from_single_resolution'), None)
    except Exception as e:
        if isinstance(e, AssertionError):
            raise
        out = (None, e)
    # never cached: every case gets its own region object, so that state a region may carry between lookups cannot leak
    # from one case into another (a replay must see exactly what the case saw)
    return out


def run_single(case, sink):
    z, K = case['zoom'], case['K']
    ctx, err = build_single(z)
    sink.evals += 1
    if err is not None:
        sink.fail(f'QuadtreeGrid2D.from_single_resolution|{type(err).__name__}|zoom', f'zoom={z}: {type(err).__name__}: {err}',
                  dict(kind='single', zoom=z, K=K))
        return dict(zoom=z)
    lo, hi = case.get('block') or [0, ctx.n]
    hi = min(hi, ctx.n)

    def mk_case(i):
        if ctx.n <= 1024 or i is None:
            return dict(case)
        if not (lo <= i < hi):
            i = lo
        return dict(kind='single', zoom=z, K=K, block=[i, i + 1])

    if lo == 0:
        sink.states += 1
        sink.nontrivial += 1
        sink.grids.add(ctx.key())
        ok = judge_grid_level(ctx, sink, mk_case, expect_quadkeys=rq.single_resolution(z), expect_complete=True)
        if ok:
            # _create_tile_fix_len from deeper starting tiles
            run_fix_len(z, sink)
    if not ctx.shape_ok:
        return dict(zoom=z)
    judge_pairs(ctx, sink, mk_case, lo, hi)
    big = ctx.n > 2000
    judge_probes(ctx, sink, mk_case, range(lo, hi), K, with_global=(lo == 0),
                 forms=('float', 'ndarray') if big else ('float', 'float64', 'list', 'ndarray'),
                 light_forms=('float64', 'list') if big else ())
    return dict(zoom=z, cells=ctx.n, block=[lo, hi], first_cell=dict(quadkey=ctx.quadkeys[lo], bounds=ctx.Bl[lo]))


def run_fix_len(z, sink):
    from csep.core.regions import _create_tile_fix_len
    for start in ('2', '13', '302'):
        if z > 6 and len(start) < 2:
            continue
        qk = []
        try:
            _create_tile_fix_len(start, z, qk)
        except Exception as e:
            sink.fail(f'csep.core.regions._create_tile_fix_len|{type(e).__name__}|any', f'start={start} zoom={z}: {e}',
                      dict(kind='single', zoom=z, K=0, block=[0, 1]))
            continue
        sink.evals += 1
        exp = [start + s for s in rq.single_resolution(z - len(start))] if z > len(start) else [start]
        sink.obs(qk)
        if sorted(map(str, qk)) != sorted(exp):
            sink.fail('csep.core.regions._create_tile_fix_len|quadkeys|any',
                      f'start={start} zoom={z}: got {len(qk)} keys {qk[:6]}.. expected {len(exp)} keys {exp[:6]}..',
                      dict(kind='single', zoom=z, K=0, block=[0, 1]))


def events_on_edges(events, zoom):
    n = 2 ** zoom
    lon_e = set(rq.lon_of(x, zoom) for x in range(n + 1))
    lat_e = set(rq.lat_of(y, zoom) for y in range(n + 1))
    return any(lo in lon_e or la in lat_e for lo, la in events)


def run_catalog(case, sink):
    from csep.core.catalogs import CSEPCatalog
    from csep.core.regions import QuadtreeGrid2D, _create_tile
    K = case['K']
    seen = set()
    sample = None
    top = [rq.bounds(d) for d in '0123']
    for ev in case['msets']:
        data = [(str(i), i * 1000, float(la), float(lo), 10.0, 5.0) for i, (lo, la) in enumerate(ev)]
        cat = CSEPCatalog(data=data)
        lons = cat.get_longitudes()
        lats = cat.get_latitudes()
        events = [(float(a), float(b)) for a, b in zip(lons, lats)]
        if events != [(float(lo), float(la)) for lo, la in ev]:
            raise AssertionError('catalog does not hold the coordinates it was given: %r vs %r' % (events, ev))
        outside = any(not rq.containing(top, lo, la) for lo, la in events)
        for t in case['thresholds']:
            for z in case['zooms']:
                one = dict(kind='catalog', msets=[ev], thresholds=[t], zooms=[z], K=K)

                def mk_case(i, one=one):
                    return one
                sink.states += 1
                try:
                    region = QuadtreeGrid2D.from_catalog(cat, t, zoom=z)
                    ctx = Ctx(region, 'QuadtreeGrid2D.from_catalog')
                except AssertionError:
                    raise
                except Exception as e:
                    sink.evals += 1
                    sink.fail(f'QuadtreeGrid2D.from_catalog|{type(e).__name__}|any',
                              f'events(lon,lat)={ev} threshold={t} zoom={z}: {type(e).__name__}: {e}', one)
                    continue
                sink.evals += 1
                split = any(len(q) > 1 for q in ctx.quadkeys)
                if split or outside or events_on_edges(events, z):
                    sink.nontrivial += 1
                sink.count('catalog_configurations')
                if split:
                    sink.count('catalog_configurations_with_a_split')
                sink.count('catalog_leaves_at_depth_%d' % max(len(q) for q in ctx.quadkeys))
                # ---- refinement clauses, judged on the leaves the library produced
                desc = f'events(lon,lat)={ev} threshold={t} zoom={z} leaves={ctx.quadkeys}'
                if not ctx.prefix_free:
                    sink.fail('QuadtreeGrid2D.from_catalog|tiles-intersect|any', desc, one)
                elif not ctx.complete:
                    sink.fail('QuadtreeGrid2D.from_catalog|tiles-do-not-cover|any', desc, one)
                clause_failed = not ctx.complete
                for clause, q, cnt in rq.refinement_defects(ctx.quadkeys, events, t, z):
                    clause_failed = True
                    what = {'beyond-max-zoom': f'leaf {q} is deeper than the maximum zoom {z}',
                            'leaf-above-threshold': f'leaf {q} holds {cnt} > {t} events and is shallower than zoom {z}',
                            'split-at-or-below-threshold': f'parent of leaf {q} holds {cnt} <= {t} events but was split'}[clause]
                    sink.fail(f'csep.core.regions._create_tile|{clause}|any', what + '; ' + desc, one)
                exp_leaves = rq.refine(events, t, z)
                if sorted(ctx.quadkeys) != sorted(q for q, _ in exp_leaves) and not clause_failed:
                    sink.fail('QuadtreeGrid2D.from_catalog|differs-from-reference-refinement|any',
                              desc + f' expected {[q for q, _ in exp_leaves]}', one)
                # ---- the same refinement with the magnitudes option (a magnitude grid above every event's magnitude, and one
                #      below): the option labels the magnitude axis, the refinement counts ALL events of the catalog
                for mg in ([5.5, 6.5], [4.0, 4.5]):
                    try:
                        rm = QuadtreeGrid2D.from_catalog(cat, t, zoom=z, magnitudes=numpy.array(mg))
                        qm = sorted(str(q) for q in rm.quadkeys)
                    except Exception as e:
                        sink.fail(f'QuadtreeGrid2D.from_catalog|{type(e).__name__}|magnitudes-option', f'magnitudes={mg}: {type(e).__name__}: {e}; ' + desc, one)
                        continue
                    sink.evals += 1
                    if qm != sorted(ctx.quadkeys):
                        sink.fail('QuadtreeGrid2D.from_catalog|leaves-depend-on-the-magnitudes-option|magnitudes-option',
                                  f'magnitudes={mg}: leaves {qm}; without the option: ' + desc, one)
                # ---- direct calls of the recursive worker from other start tiles
                for start in ('1', '12'):
                    qk, num = [], []
                    try:
                        _create_tile(start, t, z, lons, lats, qk, num)
                    except Exception as e:
                        sink.fail(f'csep.core.regions._create_tile|{type(e).__name__}|any', f'start={start} ' + desc, one)
                        continue
                    sink.evals += 1
                    got = sorted((str(q), int(c)) for q, c in zip(qk, num))
                    sink.obs(got)
                    if len(qk) != len(num) or got != sorted(rq.refine(events, t, z, starts=(start,))):
                        sink.fail('csep.core.regions._create_tile|leaves-and-counts|any',
                                  f'start={start}: got {got} expected {sorted(rq.refine(events, t, z, starts=(start,)))}; ' + desc, one)
                # ---- the grid itself (probed once per distinct grid inside this case)
                k = ctx.key()
                sink.grids.add(k)
                if k in seen:
                    sink.obs(k)
                    sink.count('catalog_configurations_inducing_an_already_probed_grid')
                    continue
                seen.add(k)
                if judge_grid_level(ctx, sink, mk_case, expect_complete=True):
                    judge_pairs(ctx, sink, mk_case, 0, ctx.n)
                    judge_probes(ctx, sink, mk_case, range(ctx.n), K, True, ('float', 'float64', 'list', 'ndarray'))
                if sample is None or len(ctx.quadkeys) > len(sample['leaves']):
                    sample = dict(events=ev, threshold=t, zoom=z, leaves=ctx.quadkeys)
    return sample


def run_quadkeys(case, sink, grids=None):
    from csep.core.regions import QuadtreeGrid2D, quadtree_grid_bounds
    K = case['K']
    grids = case['grids'] if grids is None else grids
    sample = None
    for g in grids:
        if not rq.prefix_free(g):
            raise AssertionError('enumerated quadkey set is not prefix-free: %r' % (g,))
        for form in case['forms']:
            one = dict(kind='quadkeys', grids=[g], forms=[form], K=K, complete=bool(case.get('complete')))

            def mk_case(i, one=one):
                return one
            arg = list(g) if form == 'list' else numpy.array(g)
            sink.states += 1
            sink.nontrivial += 1
            try:
                region = QuadtreeGrid2D.from_quadkeys(arg)
                ctx = Ctx(region, 'QuadtreeGrid2D.from_quadkeys')
            except AssertionError:
                raise
            except Exception as e:
                sink.evals += 1
                sink.fail(f'QuadtreeGrid2D.from_quadkeys|{type(e).__name__}|{form}', f'quadkeys={g}: {type(e).__name__}: {e}', one)
                continue
            sink.evals += 1
            sink.grids.add(ctx.key())
            if ctx.quadkeys != list(g):
                sink.fail('QuadtreeGrid2D.from_quadkeys|quadkeys|any', f'given {g} region holds {ctx.quadkeys}', one)
                continue
            # the bounds function called directly
            try:
                b = numpy.array(quadtree_grid_bounds(arg), dtype=float)
                sink.evals += 1
                sink.obs(b)
                if b.shape != (len(g), 4) or not all(close(x, y) for r1, r2 in zip(b.tolist(), ctx.R) for x, y in zip(r1, r2)):
                    sink.fail('csep.core.regions.quadtree_grid_bounds|value|any', f'quadkeys={g}: got {b.tolist()} expected {ctx.R}', one)
            except Exception as e:
                sink.fail(f'csep.core.regions.quadtree_grid_bounds|{type(e).__name__}|direct', f'quadkeys={g}: {e}', one)
            complete = rq.is_complete_tiling(g)
            if judge_grid_level(ctx, sink, mk_case, expect_complete=complete):
                judge_pairs(ctx, sink, mk_case, 0, ctx.n)
                judge_probes(ctx, sink, mk_case, range(ctx.n), K, True,
                             ('float', 'float64', 'list', 'ndarray') if K > 0 else ('float', 'ndarray'))
            sample = dict(quadkeys=g, form=form)
    return sample


def run_tilings3(case, sink):
    opts = [quadrant_options_depth3(d) for d in '0123']
    grids = [sum((opts[q][p[q]] for q in range(4)), []) for p in case['picks']]
    sub = dict(kind='quadkeys', forms=['array'], K=case['K'], complete=True)
    return run_quadkeys(sub, sink, grids=grids)


def build_california():
    from csep.core.regions import california_quadtree_region
    if 'california' in _BIG:
        return _BIG['california']
    try:
        region = california_quadtree_region()
        out = (Ctx(region, 'csep.core.regions.california_quadtree_region'), None)
    except AssertionError:
        raise
    except Exception as e:
        out = (None, e)
    return out      # not cached (see build_single)


def run_california(case, sink):
    K = case['K']
    ctx, err = build_california()
    sink.evals += 1
    if err is not None:
        sink.fail(f'csep.core.regions.california_quadtree_region|{type(err).__name__}|any', f'{type(err).__name__}: {err}',
                  dict(kind='california', K=K, block=[0, 1]))
        return None
    lo, hi = case['block']
    hi = min(hi, ctx.n)

    def mk_case(i):
        if i is None:
            return dict(case)
        if not (lo <= i < hi):
            i = lo
        return dict(kind='california', K=K, block=[i, i + 1])

    if lo == 0:
        sink.states += 1
        sink.nontrivial += 1
        sink.grids.add(ctx.key())
        path = os.path.join(repo_dir(), 'csep', 'artifacts', 'Regions', 'california_qk_zoom=12.txt')
        with open(path) as fh:
            shipped = [ln.strip() for ln in fh if ln.strip()]
        if ctx.quadkeys != shipped:
            sink.fail('csep.core.regions.california_quadtree_region|quadkeys|any',
                      f'region holds {ctx.n} quadkeys, the shipped file {len(shipped)}; first {ctx.quadkeys[:3]} vs {shipped[:3]}',
                      mk_case(0))
        if not ctx.prefix_free:
            sink.fail('csep.core.regions.california_quadtree_region|tiles-intersect|any', 'shipped quadkeys are not prefix-free',
                      mk_case(0))
        judge_grid_level(ctx, sink, mk_case, expect_complete=False)
    if not ctx.shape_ok or lo >= hi:
        return None
    judge_pairs(ctx, sink, mk_case, lo, hi)
    judge_probes(ctx, sink, mk_case, range(lo, hi), K, with_global=(lo == 0), forms=('float', 'ndarray'),
                 light_forms=('float64', 'list'))
    return dict(california=dict(cells=ctx.n, block=[lo, hi], first_cell=dict(quadkey=ctx.quadkeys[lo], bounds=ctx.Bl[lo])))


def run_misc(case, sink):
    """Direct calls of geographical_area_from_bounds on every rectangle spanned by depth-3 tile edges (and the poles),
    Python-int scalar queries, and behaviours that are recorded but not judged."""
    from csep.core.regions import geographical_area_from_bounds, QuadtreeGrid2D
    one = dict(kind='misc')
    lons = [rq.lon_of(x, 3) for x in range(9)]
    lats = sorted([rq.lat_of(y, 3) for y in range(9)] + [-90.0, 90.0])
    for i1 in range(len(lons)):
        for i2 in range(i1, len(lons)):
            for j1 in range(len(lats)):
                for j2 in range(j1, len(lats)):
                    b = (lons[i1], lats[j1], lons[i2], lats[j2])
                    try:
                        a = float(geographical_area_from_bounds(*b))
                    except Exception as e:
                        sink.fail(f'csep.core.regions.geographical_area_from_bounds|{type(e).__name__}|direct', f'bounds {b}: {e}', one)
                        continue
                    sink.evals += 1
                    sink.states += 1
                    sink.obs(a)
                    ea = rq.cell_area(b)
                    degenerate = (i1 == i2 or j1 == j2)
                    if degenerate:
                        sink.nontrivial += 1
                    ok = (a == 0.0) if degenerate else math.isclose(a, ea, rel_tol=1e-9)
                    if not ok:
                        sink.fail('csep.core.regions.geographical_area_from_bounds|value|' + ('degenerate' if degenerate else 'rectangle'),
                                  f'bounds (lon1,lat1,lon2,lat2)={b}: got {a!r} expected {0.0 if degenerate else ea!r} km2', one)
    # Python int scalars are handled scalars
    region = QuadtreeGrid2D.from_single_resolution(2)
    ctx = Ctx(region, 'QuadtreeGrid2D.from_single_resolution')
    for lo in (-180, -90, 0, 90, 179, 180):
        for la in (-86, -85, -1, 0, 1, 66, 85, 86):
            exp = rq.containing(ctx.R, lo, la)
            exp = exp[0] if exp else None
            sink.states += 1
            sink.nontrivial += 1
            try:
                got = region.get_index_of(lo, la)
            except Exception as e:
                sink.fail(f'QuadtreeGrid2D.get_index_of|{type(e).__name__}|scalar:int', f'lon={lo} lat={la}: {e}', one)
                continue
            sink.evals += 1
            g = norm_one(got, ctx.n)
            sink.obs(g)
            if got is None and exp is not None:
                fc = 'missed-cell'
            else:
                fc = judge_value(g, exp)
            if fc:
                sink.fail(f'QuadtreeGrid2D.get_index_of|{fc}|scalar:{pclass(ctx, (lo, la), "corner")}', f'zoom-2 grid, lon={lo} lat={la} (Python ints): got {got!r} expected {exp}', one)
    # recorded, not judged
    try:
        region.get_index_of([], [])
        sink.count('observed_empty_list_returns')
    except Exception:
        sink.count('observed_empty_list_raises')
    if region.get_index_of(numpy.int64(0), numpy.int64(0)) is None:
        sink.count('observed_numpy_int_scalar_returns_None')
    return dict(area_rectangles=len(lons) * (len(lons) + 1) // 2 * len(lats) * (len(lats) + 1) // 2)


def run_case(case):
    sink = Sink()
    kind = case['kind']
    if kind == 'single':
        sample = run_single(case, sink)
    elif kind == 'catalog':
        sample = run_catalog(case, sink)
    elif kind == 'quadkeys':
        sample = run_quadkeys(case, sink)
    elif kind == 'tilings3':
        sample = run_tilings3(case, sink)
    elif kind == 'california':
        sample = run_california(case, sink)
    elif kind == 'misc':
        sample = run_misc(case, sink)
    else:
        raise ValueError('unknown case kind %r' % (kind,))
    return result(evals=sink.evals, states=sink.states, transitions=sink.evals, nontrivial=sink.nontrivial,
                  failures=sink.failures, digest=sink.h.hexdigest(), counters=sink.c,
                  sets={'distinct_grids': sorted(sink.grids)}, sample=dict(case_kind=kind, example=sample))


def finish(agg, tier):
    c = agg['counters']
    quick = (tier == 'quick')
    return dict(evidence=dict(
        bounds=dict(single_resolution_zoom='1..6 (+ one seed-selected complete block of the thorough space)' if quick else '1..8',
                    catalog_events_max=3 if quick else 4, catalog_positions=12, thresholds=[0, 1, 2, 3], max_zooms=[1, 2, 3, 4],
                    tilings='16 complete depth<=2 tilings, deletions <=%d' % (2 if quick else 3) +
                            ('' if quick else ', reversed order, 83521 complete depth<=3 tilings'),
                    california_cells=12540, ulp_half_window=1 if quick else 2),
        ambiguous_skipped=c.get('ambiguous_skipped', 0) + c.get('ambiguous_skipped_array_calls', 0)))
