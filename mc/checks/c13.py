"""C13 A catalog forecast is a stable, re-iterable collection (explicit-state BFS over call histories)."""
import hashlib
import os

import numpy

from mc import bfs, fixtures
from mc.engine import Fail, result

ID = 'C13'
RULE = ('explicit-state BFS over ALL histories of operations {IT full pass, EC get_event_counts, ER get_expected_rates, '
        'SC spatial_counts, MC magnitude_counts, NC n_cat, catalog N/S/M/PL/resampled-M/MLL tests} on real '
        'CatalogForecast objects, for 12 configurations (in-memory list | file store=True | file store=False) x '
        '(magnitude filter off|on) x (spatial filter off|on) and 3-4 forecast contents (one starting with an empty catalog and repeating empty catalogs); depth <= 3 (quick) / 5 (thorough) '
        'or until the canonical state set closes (fixpoint). State = canonical form of the real object (cursor, '
        'cache, counts, n_cat, apply_filters, expected rates, stored event arrays). Every transition is judged '
        'against the reference forecast (a list of once-filtered event lists) and against the same operation on a '
        'fresh object. A transition is non-trivial iff its history is non-empty (state carried between passes).')
ASSUMPTIONS = ['two histories reaching the same canonical state have the same futures: __next__, get_event_counts and '
               'get_expected_rates read only the canonicalised fields; file content is fixed per case',
               'in-memory forecasts are constructed with n_cat (as every existing caller does)',
               'seeded tests use seed=1 (seed handling itself belongs to C06)']

DH = 0.1
ORIGINS = [(0.0, 0.0), (0.1, 0.0), (0.0, 0.1), (0.1, 0.1)]
MAGS = [5.0, 6.0]
T0 = 1262304000000  # 2010-01-01

# event tuples: (id, ms, lat, lon, depth, mag)
def ev(i, cell, mag):
    lon = ORIGINS[cell][0] + 0.05 if cell >= 0 else 0.35
    lat = ORIGINS[cell][1] + 0.05 if cell >= 0 else 0.05
    return (f'e{i}', T0 + 1000 * i, lat, lon, 10.0, mag)


CONTENTS = {
    # in-region, in-magnitude-range events only; one empty catalog
    'A': [[ev(1, 0, 5.5), ev(2, 0, 6.5)], [], [ev(3, 3, 5.5)]],
    'C': [[ev(1, 1, 5.5)], [ev(2, 1, 5.5), ev(3, 2, 6.5), ev(4, 2, 6.5)]],
    # the FIRST catalog is empty, and empty catalogs repeat
    'E': [[], [ev(1, 0, 5.5)], [], [ev(2, 3, 6.5), ev(3, 3, 5.5)], []],
    # a larger forecast: 14 catalogs, sizes 0..6, all in range
    'L': [[ev(10 * j + i, (i + j) % 4, 5.5 + (i % 2)) for i in range(j % 7)] for j in range(14)],
    # events below the minimum magnitude (need the magnitude filter)
    'Bm': [[ev(1, 0, 4.0), ev(2, 1, 5.5)], [ev(3, 2, 4.0)], [ev(4, 3, 6.5), ev(5, 3, 4.5)]],
    # events outside the region (need the spatial filter)
    'Bs': [[ev(1, -1, 5.5), ev(2, 1, 5.5)], [ev(3, -1, 6.5)], [ev(4, 3, 6.5)]],
    # both
    'Bb': [[ev(1, -1, 5.5), ev(2, 1, 4.0), ev(3, 2, 5.5)], [ev(4, -1, 4.0)], [], [ev(5, 0, 6.5), ev(6, 0, 6.5)]],
}
# per-bin totals beyond 255 and 65535 (one catalog alone: 300 in one bin; summed over catalogs: 70000)
CONTENTS['H'] = [[ev(i, 0, 5.5) for i in range(40000)], [ev(40000 + i, 0, 5.5) for i in range(30000)] + [ev(70000 + i, 3, 6.5) for i in range(300)], []]
# a synthetic event ONE ULP below the lowest magnitude edge (inside the binning tolerance zone of C02: the library counts it in
# the first bin, a range filter 'magnitude >= 5.0' would drop it). Only the pass content, the per-catalog counts and the
# history-independence of every operation are judged on it - not which bin it is counted in (that belongs to C02/C03).
import math as _math
CONTENTS['Z'] = [[ev(1, 0, _math.nextafter(5.0, 0.0)), ev(2, 1, 5.5)], [ev(3, 2, 6.5)], [ev(4, 3, _math.nextafter(5.0, 0.0))]]
OBS = [ev(101, 0, 5.5), ev(102, 3, 6.5)]

OPS = ['IT', 'EC', 'NC', 'ER', 'SC', 'MC', 'cN', 'cS', 'cM', 'cPL', 'cRM', 'cMLL', 'cRMlow']


def region():
    return fixtures.cartesian_region(ORIGINS, DH, magnitudes=MAGS)


def contents_for(fmag, fsp):
    if fmag and fsp:
        return ['A', 'Bb', 'Bm', 'E', 'L']
    if fmag:
        return ['A', 'Bm', 'C', 'E', 'L']
    if fsp:
        return ['A', 'Bs', 'C', 'E', 'L']
    return ['A', 'C', 'E', 'L']


def cases(tier, seed):
    depth = 3 if tier == 'quick' else 5
    for storage in ('mem', 'file_store', 'file_nostore'):
        for fmag in (False, True):
            for fsp in (False, True):
                for content in contents_for(fmag, fsp):
                    yield dict(kind='bfs', storage=storage, fmag=fmag, fsp=fsp, content=content, depth=depth)
    # in-memory catalogs that carry the forecast's filter statements as a RECORD (constructor keyword), not yet applied
    for fsp in (False, True):
        for content in contents_for(True, fsp):
            if content != 'L':
                yield dict(kind='bfs', storage='mem_recorded', fmag=True, fsp=fsp, content=content, depth=depth)
    # catalogs bound to another cell order; custom loaders with decreasing catalog ids
    for content in ('A', 'C', 'E'):
        yield dict(kind='bfs', storage='mem_other_region', fmag=False, fsp=False, content=content, depth=depth)
        for storage in ('loader_store', 'loader_nostore'):
            yield dict(kind='bfs', storage=storage, fmag=False, fsp=False, content=content, depth=depth)
    # the caller announces more catalogs than the file lists (n_cat given to the constructor): every pass still defines n_cat
    for storage in ('file_store', 'file_nostore'):
        for content in ('A', 'E'):
            yield dict(kind='bfs', storage=storage, fmag=False, fsp=(content == 'E'), content=content, depth=depth, hint=2)
            yield dict(kind='bfs', storage=storage, fmag=False, fsp=(content == 'E'), content=content, depth=depth, hint=-1)
    # a tolerance-zone magnitude in the stored catalogs (an evaluation that range-filters the forecast's own catalogs shows here)
    for storage in ('mem', 'file_store', 'file_nostore'):
        yield dict(kind='bfs', storage=storage, fmag=False, fsp=False, content='Z', depth=depth)
    # very many events per bin (every single operation on a fresh object and every pair of operations)
    yield dict(kind='bfs', storage='mem', fmag=False, fsp=False, content='H', depth=1)
    # seed-selected extra complete block (quick): one configuration explored one level deeper
    if tier == 'quick':
        st = ('mem', 'file_store', 'file_nostore')[seed % 3]
        yield dict(kind='bfs', storage=st, fmag=True, fsp=True, content='Bb', depth=4)


# ------------------------------------------------------------------ reference model
def ref_forecast(content, fmag, fsp):
    out = []
    for cat in CONTENTS[content]:
        keep = []
        for e in cat:
            if fmag and not (e[5] >= 5.0):
                continue
            if fsp and not (0.0 <= e[3] < 0.2 and 0.0 <= e[2] < 0.2):
                continue
            keep.append(e)
        out.append(keep)
    return out


def ref_cell(e):
    col = 0 if e[3] < 0.1 else 1
    row = 0 if e[2] < 0.1 else 1
    return row * 2 + col


def ref_rates(ref):
    data = [[0.0, 0.0] for _ in ORIGINS]
    for cat in ref:
        for e in cat:
            data[ref_cell(e)][0 if e[5] < 6.0 else 1] += 1
    J = len(ref)
    return [[v / J for v in row] for row in data]


# ------------------------------------------------------------------ real object
def build(case, path):
    import csep
    from csep.core.forecasts import CatalogForecast
    reg = region()
    filters = ['magnitude >= 5.0'] if case['fmag'] else None
    apply_filters = bool(case['fmag'] or case['fsp'])
    kw = dict(region=reg, filters=filters, filter_spatial=case['fsp'], apply_filters=apply_filters, name='fc')
    if case['storage'] == 'mem_other_region':
        # the synthetic catalogs already carry a region of their own: the same cells stored in REVERSE order
        other = fixtures.cartesian_region(ORIGINS[::-1], DH, magnitudes=MAGS)
        cats = [fixtures.catalog(evs, region=other, catalog_id=i, name='fc') for i, evs in enumerate(CONTENTS[case['content']])]
        return CatalogForecast(catalogs=cats, n_cat=len(cats), **kw)
    if case['storage'] in ('loader_store', 'loader_nostore'):
        # a user-supplied loader whose catalog ids DEcrease along the stream (several batch files numbered from the end)
        contents = CONTENTS[case['content']]
        J_ = len(contents)

        def loader(format=None, filename=None, region=None, name=None, **_):
            for i, evs in enumerate(contents):
                yield fixtures.catalog(evs, region=region, catalog_id=J_ - 1 - i, name='fc')
        return CatalogForecast(filename=path, loader=loader, store=(case['storage'] == 'loader_store'), **kw)
    if case['storage'] in ('mem', 'mem_recorded'):
        # mem_recorded: the synthetic catalogs were built with filters=<the forecast's statements>, which only RECORDS them
        ckw = dict(filters=list(filters)) if (case['storage'] == 'mem_recorded' and filters) else {}
        cats = [fixtures.catalog(evs, region=reg, catalog_id=i, name='fc', **ckw) for i, evs in enumerate(CONTENTS[case['content']])]
        return CatalogForecast(catalogs=cats, n_cat=len(cats), **kw)
    if case.get('hint'):
        kw['n_cat'] = len(CONTENTS[case['content']]) + case['hint']
    return csep.load_catalog_forecast(path, store=(case['storage'] == 'file_store'), **kw)


def _scribble(a):
    """In-place edit of an array the library RETURNED (what a caller may do with its own copy)."""
    try:
        if isinstance(a, numpy.ndarray) and a.size:
            a[...] = -5
        elif isinstance(a, list) and a:
            a[:] = [-5] * len(a)
    except (ValueError, TypeError):
        pass


def _test_obs(res):
    if res is None:
        return None
    return dict(cls=type(res).__name__, status=res.status, stat=fixtures.norm(res.observed_statistic),
                q=fixtures.norm(res.quantile), dist=fixtures.norm(res.test_distribution))


def apply_op(fc, op):
    """Executes one operation on the real forecast; the observation is JSON-like; exceptions are observations."""
    from csep.core import catalog_evaluations as ce
    try:
        if op == 'IT':
            return ['IT', [(c.catalog_id, fixtures.events_of(c)) for c in fc]]
        if op == 'EC':
            c = fc.get_event_counts(verbose=False)
            out = ['EC', fixtures.norm(c)]
            _scribble(c)                       # the caller owns what it was handed: sorting / shifting it in place is its business
            return out
        if op == 'NC':
            return ['NC', fc.n_cat]
        if op == 'ER':
            r = fc.get_expected_rates()
            attr = fc.expected_rates
            out = ['ER', None if r is None else fixtures.norm(r.data), None if attr is None else fixtures.norm(attr.data)]
            if r is not None:
                _scribble(r.data)
            return out
        if op == 'SC':
            c = fc.spatial_counts()
            out = ['SC', fixtures.norm(c)]
            _scribble(c)
            return out
        if op == 'MC':
            c = fc.magnitude_counts()
            out = ['MC', fixtures.norm(c)]
            _scribble(c)
            return out
        obs = fixtures.catalog(OBS, region=region(), name='obs')
        if op == 'cN':
            return ['cN', _test_obs(ce.number_test(fc, obs, verbose=False))]
        if op == 'cS':
            return ['cS', _test_obs(ce.spatial_test(fc, obs, verbose=False))]
        if op == 'cM':
            return ['cM', _test_obs(ce.magnitude_test(fc, obs, verbose=False))]
        if op == 'cPL':
            return ['cPL', _test_obs(ce.pseudolikelihood_test(fc, obs, verbose=False))]
        if op == 'cRM':
            return ['cRM', _test_obs(ce.resampled_magnitude_test(fc, obs, seed=1))]
        if op == 'cRMlow':
            # the observed catalog has events, but none inside the forecast's magnitude range
            low = fixtures.catalog([ev(201, 0, 3.0), ev(202, 3, 4.5)], region=region(), name='obs')
            return ['cRMlow', _test_obs(ce.resampled_magnitude_test(fc, low, seed=1))]
        if op == 'cMLL':
            return ['cMLL', _test_obs(ce.MLL_magnitude_test(fc, obs, seed=1))]
    except Exception as e:
        return [op, 'EXC', type(e).__name__, str(e)[:200]]
    raise ValueError(op)


def _h(x):
    return hashlib.sha1(repr(x).encode()).hexdigest()[:12]


def canon(fc):
    cats = getattr(fc, 'catalogs', None)
    if isinstance(cats, list):
        kind = ('list', _h([(c.catalog_id, fixtures.events_of(c)) for c in cats]))
    else:
        kind = ('gen',)
    cache = getattr(fc, '_catalogs', 'absent')
    if cache != 'absent':
        cache = _h([(c.catalog_id, fixtures.events_of(c)) for c in cache])
    er = getattr(fc, 'expected_rates', None)
    er = None if er is None else _h(fixtures.norm(er.data))
    return (kind, getattr(fc, '_idx', None), tuple(getattr(fc, '_event_counts', ())), getattr(fc, 'n_cat', None),
            getattr(fc, 'apply_filters', None), cache, er)


# ------------------------------------------------------------------ judging
def judge_obs(case, hist, op, obs, fresh, ref, failures, counters):
    """obs: observation after history `hist`; fresh: observation of the same op on a fresh object."""
    J = len(ref)
    rep = dict(kind='single', storage=case['storage'], fmag=case['fmag'], fsp=case['fsp'], content=case['content'], hint=case.get('hint', 0),
               history=list(hist), op=op)
    site = f'CatalogForecast[{op}]'

    def fail(cls, detail):
        failures.append(Fail(f'{site}|{cls}|{"fresh" if not hist else "after-history"}',
                             f'{detail} | config={case["storage"]},fmag={case["fmag"]},fsp={case["fsp"]},content={case["content"]} history={list(hist)} op={op}',
                             rep))
    if len(obs) > 1 and obs[1] == 'EXC':
        if fresh == obs:
            counters['op_undefined_for_config'] = counters.get('op_undefined_for_config', 0) + 1
            if op in ('IT', 'EC', 'NC') or (op in ('ER', 'SC', 'MC') and case['content'] != 'Z'):
                fail(f'exception:{obs[2]}', f'{obs[2]}: {obs[3]}')
        else:
            fail(f'exception:{obs[2]}', f'{obs[2]}: {obs[3]} (fresh object gives {str(fresh)[:120]})')
        return
    # absolute oracle
    if op == 'IT':
        ids = (lambda i: J - 1 - i) if case['storage'].startswith('loader_') else (lambda i: i)
        want = [(ids(i), [(e[0], e[1], e[2], e[3], e[4], e[5]) for e in cat]) for i, cat in enumerate(ref)]
        got = [(cid, [tuple(e) for e in evs]) for cid, evs in obs[1]]
        if got != want:
            fail('pass-differs-from-reference', f'pass yields {str(got)[:300]} expected {str(want)[:300]}')
    elif op == 'EC':
        want = [len(c) for c in ref]
        if obs[1] != want:
            fail('counts-differ-from-single-pass', f'get_event_counts() = {obs[1]} expected {want}')
    elif op == 'NC':
        passed = any(h in ('IT', 'EC', 'ER', 'SC', 'MC', 'cN', 'cS', 'cM', 'cPL', 'cRM', 'cMLL', 'cRMlow') for h in hist)
        announced = (J + case['hint']) if case.get('hint') else None
        if not (obs[1] == J or (obs[1] is None and not hist) or (not passed and obs[1] == announced)):
            fail('n_cat-wrong', f'n_cat = {obs[1]} expected {J}')
        if hist and any(h in ('IT', 'EC', 'ER', 'SC', 'MC', 'cN', 'cS', 'cM', 'cPL', 'cRM', 'cMLL', 'cRMlow') for h in hist) and obs[1] != J:
            fail('n_cat-wrong', f'n_cat = {obs[1]} after a complete pass, expected {J}')
    elif case['content'] == 'Z' and op in ('ER', 'SC', 'MC'):
        pass            # which bin a tolerance-zone magnitude is counted in is not C13's business; the differential oracle below applies
    elif op == 'ER':
        want = ref_rates(ref)
        if obs[1] is None:
            fail('returns-None', 'get_expected_rates() returned None')
        elif not fixtures.close(obs[1], want):
            fail('rates-differ-from-mean', f'get_expected_rates().data = {obs[1]} expected {want}')
        if obs[2] is None or not fixtures.close(obs[2], want):
            fail('attribute-differs-from-mean', f'forecast.expected_rates.data = {obs[2]} expected {want}')
    elif op == 'SC':
        want = [sum(r) for r in ref_rates(ref)]
        if not fixtures.close(obs[1], want):
            fail('marginal-differs', f'spatial_counts() = {obs[1]} expected {want}')
    elif op == 'MC':
        rr = ref_rates(ref)
        want = [sum(r[k] for r in rr) for k in range(len(MAGS))]
        if not fixtures.close(obs[1], want):
            fail('marginal-differs', f'magnitude_counts() = {obs[1]} expected {want}')
    # differential oracle: state reached through a history vs. the initial state
    if hist and op not in ('NC',):
        if not fixtures.close(fixtures.norm(obs), fixtures.norm(fresh)):
            fail('history-dependent', f'after history {list(hist)} -> {str(obs)[:300]} ; on a fresh forecast -> {str(fresh)[:300]}')


def run_case(case):
    failures = []
    counters = {}
    h = hashlib.sha1()
    wd = fixtures.workdir()
    path = os.path.join(wd, f'fc_{case["content"]}.csv')
    fixtures.write_forecast_csv(path, CONTENTS[case['content']])
    ref = ref_forecast(case['content'], case['fmag'], case['fsp'])
    numpy.random.seed(424242)

    def mk():
        return build(case, path)

    fresh_obs = {}
    for op in OPS:
        fresh_obs[op] = apply_op(mk(), op)

    if case['kind'] == 'single':
        fc = mk()
        for hop in case['history']:
            apply_op(fc, hop)
        obs = apply_op(fc, case['op'])
        judge_obs(case, tuple(case['history']), case['op'], obs, fresh_obs[case['op']], ref, failures, counters)
        return result(evals=1, states=1, transitions=1, nontrivial=1 if case['history'] else 0, failures=failures,
                      digest=_h(obs), sample=case)

    nontriv = [0]

    def judge(hist, op, obs, obj):
        h.update(repr((hist, obs)).encode())
        if hist:
            nontriv[0] += 1
        judge_obs(case, hist, op, obs, fresh_obs[op], ref, failures, counters)

    st = bfs.explore(mk, OPS, apply_op, canon, judge, max_depth=case['depth'])
    try:
        os.remove(path)
    except OSError:
        pass
    counters['bfs_fixpoints_reached'] = 1 if st['fixpoint_reached'] else 0
    counters['bfs_runs'] = 1
    counters['op_executions'] = st['op_executions']
    longest = max(st['state_histories'].values(), key=len)
    return result(evals=st['transitions'], states=st['states'], transitions=st['transitions'], nontrivial=nontriv[0],
                  failures=failures, digest=h.hexdigest(), counters=counters,
                  sets={'max_depth_reached': [st['max_depth_reached']]},
                  sample=dict(config=dict(storage=case['storage'], fmag=case['fmag'], fsp=case['fsp'],
                                          content=case['content']),
                              states=st['states'], transitions=st['transitions'],
                              fixpoint=st['fixpoint_reached'], deepest_new_state_history=list(longest)))
