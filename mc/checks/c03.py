"""C03 Gridding a catalog counts every event exactly once, in its own cell and bin."""
import hashlib
import itertools

import numpy

from mc import fixtures, space
from mc.engine import Fail, result
from mc.ref import ref_quadtree as rq

ID = 'C03'
RULE = ('regions: Cartesian {2x2 full, 3x2 with a hole, 1x3 column, 2x2 with a flagged-out cell} and quadtree {zoom 1, zoom 2, '
        'mixed-depth keys 0,10,11,12,13,2,3}; magnitude grids {[5,6,7], 4.95+0.1k (5 edges), single edge [5.0]}, each bound to '
        'the region and passed explicitly; event alphabet = 7 positions (cell centres, a cell corner, a shared edge, a hole or '
        'flagged cell, outside on two sides / beyond the Mercator latitude limit and at lon=180) x 5 magnitudes (below the first '
        'edge, exactly on an inner edge, mid-bin, above the top edge, one ulp below the first edge) = 35 letters; catalogs = ALL multisets of size 0..3 (quick: size 3 for one of the six magnitude configurations); histories (gridding on the same cells in reverse order then re-binding the region; filter preview then in-place) on every catalog of size <= 2 '
        '(thorough 0..4) in sorted, reversed and rotated order (thorough: all permutations up to size 3). A catalog is '
        'non-trivial iff it has a repeated letter, an event outside the region or below the lowest edge, or an event on an '
        'edge; distinct by construction.')
ASSUMPTIONS = ['positions are exactly on cell origins/edges or clearly interior/exterior, so the reference partition (direct float '
               'comparison with the cells\' own bounds) is unambiguous (tolerance zones belong to C01/C02)',
               '"rejects" = raises any exception; for quadtree spatial_counts an out-of-region event may be dropped (property text)']

DH = 0.1


def cart_regions():
    g = lambda c, r: (round(c * DH, 10), round(r * DH, 10))
    return {
        'cart2x2': dict(cells=[g(0, 0), g(1, 0), g(0, 1), g(1, 1)], flags=None),
        'cart3x2hole': dict(cells=[g(0, 0), g(2, 0), g(0, 1), g(1, 1), g(2, 1)], flags=None),
        'cart1x3': dict(cells=[g(0, 0), g(0, 1), g(0, 2)], flags=None),
        'cart2x2flag': dict(cells=[g(0, 0), g(1, 0), g(0, 1), g(1, 1)], flags=[1, 1, 0, 1]),
        # used by the structured large catalogs only: 6x5 lattice with a hole at (2,2) and one flagged-out cell
        'cart6x5': dict(cells=[g(c, r) for r in range(5) for c in range(6) if (c, r) != (2, 2)],
                        flags=[0 if i == 7 else 1 for i in range(29)]),
        # two blocks separated by an entirely missing column (column 2)
        'cart5x2gap': dict(cells=[g(c, r) for r in range(2) for c in (0, 1, 3, 4)], flags=None),
        # a lattice across the antimeridian in the 0..360 longitude convention (origins 179.8 .. 180.1)
        'cart4x1east': dict(cells=[g(c, 0) for c in (1798, 1799, 1800, 1801)], flags=None),
    }


QUAD = {'quadL1': ['0', '1', '2', '3'], 'quadL2': [a + b for a in '0123' for b in '0123'],
        'quadmixed': ['0', '10', '11', '12', '13', '2', '3']}
SMALL_QUAD = list(QUAD)
_Q = lambda z: [''.join(t) for t in itertools.product('0123', repeat=z)]
QUAD.update({'quadL3': _Q(3), 'quadL5': _Q(5)})      # 64 and 1024 cells: structured large catalogs only
MAG_GRIDS = {'m567': [5.0, 6.0, 7.0], 'm495': [4.95, 5.05, 5.15, 5.25, 5.35], 'm5': [5.0]}


SMALL_GRIDS = list(MAG_GRIDS)
MAG_GRIDS['m41'] = [round(4.0 + 0.1 * k, 1) for k in range(21)]          # 4.0 .. 6.0: used by the single-precision catalogs only


def mags_for(grid):
    e = MAG_GRIDS[grid]
    inner = e[1] if len(e) > 1 else e[0]
    mid = (e[0] + e[1]) / 2 if len(e) > 1 else e[0] + 0.7
    import math
    # last letter: one ulp below the first edge (inside the binning tolerance zone: it may be counted in the first bin or
    # left uncounted, but every gridding function must make the SAME choice)
    return [e[0] - 0.5, inner, mid, e[-1] + 2.0, math.nextafter(e[0], -math.inf)]


def positions_for(rname):
    """list of (lon, lat) probe positions for a region"""
    if rname.startswith('cart'):
        reg = cart_regions()[rname]
        cells = reg['cells']
        c0, c1 = cells[0], cells[-1]
        pos = [(c0[0] + DH / 2, c0[1] + DH / 2), (c1[0] + DH / 2, c1[1] + DH / 2), (c1[0], c1[1])]
        # a shared edge: the lower boundary of the last cell at its mid-longitude (or its left boundary)
        pos.append((c1[0] + DH / 2, c1[1]))
        if rname == 'cart3x2hole':
            pos.append((0.15, 0.05))                 # hole
        elif rname == 'cart2x2flag':
            pos.append((0.05, 0.15))                 # flagged-out cell
        elif rname == 'cart5x2gap':
            pos.append((0.25, 0.05))                 # the missing column
        else:
            pos.append((c0[0] + DH / 4, c0[1] + DH / 4))
        xs = [c[0] for c in cells]
        ys = [c[1] for c in cells]
        pos.append((min(xs) - DH / 2, min(ys) + DH / 2))      # west of the box
        pos.append((min(xs) + DH / 2, max(ys) + DH * 1.5))    # north of the box
        return pos
    keys = QUAD[rname]
    b = [rq.bounds(k) for k in keys]
    first, last = b[0], b[-1]
    pos = [((first[0] + first[2]) / 2, (first[1] + first[3]) / 2), ((last[0] + last[2]) / 2, (last[1] + last[3]) / 2),
           (last[0], last[1]), (0.0, 10.0), (0.0, 0.0), (30.0, 86.0), (180.0, 10.0)]
    return pos


def cases(tier, seed):
    mx = 3 if tier == 'quick' else 4
    # structured LARGE catalogs (size-dependent paths): 10..2000 events cycling over every cell and magnitude class
    for rname in ('cart6x5', 'quadL2'):
        for n in (10, 100, 1000) + ((2000,) if tier == 'thorough' else ()):
            for bad in ('none', 'first', 'middle', 'last', 'below-mag-middle'):
                yield dict(kind='large', region=rname, n=n, bad=bad)
    # many events x many cells (events x cells up to 2e6)
    for rname, ns in (('quadL5', (100, 1000) + ((2000,) if tier == 'thorough' else ())), ('quadL3', (2000,) + ((5000,) if tier == 'thorough' else ())),
                      ('cart5x2gap', (10, 100))):
        for n in ns:
            for bad in ('none', 'first', 'last'):
                yield dict(kind='large', region=rname, n=n, bad=bad)
    # explicit tol= keyword: magnitudes less than / more than tol away from every edge
    for rname in ('cart2x2', 'quadL1'):
        for grid in ('m495', 'm567', 'm41'):
            for t in (1e-3, 1e-2, 0.04, 1e-9):
                yield dict(kind='tol', region=rname, grid=grid, tol=t)
    # catalogs stored in single precision
    for rname in ('cart2x2', 'cart6x5', 'quadL1'):
        for grid in ('m495', 'm567', 'm41'):
            for rep_ in (1, 3):
                yield dict(kind='f32', region=rname, grid=grid, rep=rep_)
    for rname in [r for r in cart_regions() if r != 'cart6x5'] + SMALL_QUAD:
        for grid in SMALL_GRIDS:
            for bound in (True, False):
                for size in range(0, mx + 1):
                    if rname in ('cart5x2gap', 'cart4x1east') and size > 2:
                        continue
                    if tier == 'quick' and size == 3 and (grid, bound) != ('m567', True):
                        continue
                    nparts = {0: 1, 1: 1, 2: 2, 3: 12, 4: 64}[size]
                    for part in range(nparts):        # large blocks are split into strided parts (load balance only)
                        yield dict(kind='block', region=rname, grid=grid, bound=bound, size=size, zone=(tier == 'thorough' or size <= 2),
                                   perms=('all' if tier == 'thorough' and size <= 3 else 'three'), part=[part, nparts])
    if tier == 'quick':
        rname = ([r for r in cart_regions() if r != 'cart6x5'] + SMALL_QUAD)[seed % 8]
        for part in range(16):
            yield dict(kind='block', region=rname, grid='m567', bound=True, size=4, perms='sorted', part=[part, 16])


# ----------------------------------------------------------------------------- reference
def ref_cell(rname, lon, lat):
    if rname.startswith('cart'):
        reg = cart_regions()[rname]
        # the column/row of a coordinate is the one with the greatest origin not above it (a coordinate on a boundary belongs
        # to the cell that boundary opens); x0 + DH is only used for the outer edge of the lattice
        xs = sorted({c[0] for c in reg['cells']})
        ys = sorted({c[1] for c in reg['cells']})
        cx = [x for x in xs if x <= lon]
        cy = [y for y in ys if y <= lat]
        if not cx or not cy or not (lon < xs[-1] + DH and lat < ys[-1] + DH):
            return None
        if lon >= cx[-1] + DH + 1e-9 or lat >= cy[-1] + DH + 1e-9:
            return None       # inside a missing column/row
        key = (cx[-1], cy[-1])
        for i, c in enumerate(reg['cells']):
            if tuple(c) == key:
                return i if (reg['flags'] is None or reg['flags'][i] == 1) else None
        return None
    hit = rq.containing([rq.bounds(k) for k in QUAD[rname]], lon, lat)
    assert len(hit) <= 1
    return hit[0] if hit else None


def ref_bin(edges, m):
    if m < edges[0]:
        return -1
    k = 0
    for i, e in enumerate(edges):
        if m >= e:
            k = i
    return k


def build_region(rname, mags, reverse=False):
    if rname.startswith('cart'):
        reg = cart_regions()[rname]
        cells, flags = list(reg['cells']), reg['flags']
        if reverse:
            cells, flags = cells[::-1], (None if flags is None else flags[::-1])
        return fixtures.cartesian_region(cells, DH, magnitudes=mags, mask=flags)
    from csep.core.regions import QuadtreeGrid2D
    keys = list(QUAD[rname])[::-1] if reverse else list(QUAD[rname])
    r = QuadtreeGrid2D.from_quadkeys(keys, magnitudes=None if mags is None else numpy.array(mags))
    if mags is None:
        r.magnitudes = None
    return r


def orders(seq, mode):
    seq = list(seq)
    if mode == 'sorted' or len(seq) < 2:
        return [seq]
    if mode == 'all':
        return [list(p) for p in sorted(set(itertools.permutations(seq)))]
    out = [seq, seq[::-1]]
    if len(seq) > 2:
        out.append(seq[1:] + seq[:1])
    uniq = []
    for o in out:
        if o not in uniq:
            uniq.append(o)
    return uniq


def judge_catalog(rname, grid, bound, letters, pos, mags, edges, failures, hsh, hist=True, allow_zone=True):
    """letters: list of (pos index, mag index). Returns evals."""
    quad = not rname.startswith('cart')
    reg = build_region(rname, edges if bound else None)
    evs = [(f'e{i}', 1262304000000 + i, pos[p][1], pos[p][0], 10.0, mags[m]) for i, (p, m) in enumerate(letters)]
    cells = [ref_cell(rname, pos[p][0], pos[p][1]) for p, m in letters]
    bins = [ref_bin(edges, mags[m]) for p, m in letters]
    zone = [allow_zone and m == 4 for p, m in letters]          # tolerance-zone magnitudes (letter 4): bin -1 or 0, consistently
    n_cells = len(reg.polygons)
    nb = len(edges)
    all_in = all(c is not None for c in cells)
    all_mag = all(b >= 0 for b in bins)
    want = numpy.zeros((n_cells, nb))
    for c, b in zip(cells, bins):
        if c is not None and b >= 0:
            want[c, b] += 1
    want_sp = numpy.zeros(n_cells)
    for c in cells:
        if c is not None:
            want_sp[c] += 1
    want_mag = numpy.zeros(nb)
    for b in bins:
        if b >= 0:
            want_mag[b] += 1
    kw = {} if bound else dict(mag_bins=numpy.array(edges))
    if any(zone):
        return judge_zone(rname, grid, bound, letters, evs, reg, cells, bins, zone, edges, kw, failures, hsh)
    cls = ('quadtree' if quad else 'cartesian') + (',event-outside-region' if not all_in else '') + (',magnitude-below-first-edge' if not all_mag else '')
    rep = dict(kind='single', region=rname, grid=grid, bound=bound, letters=[list(l) for l in letters])
    evals = 0

    def cat():
        return fixtures.catalog(evs, region=reg)

    def fail(api, what, detail):
        failures.append(Fail(f'CSEPCatalog.{api}|{what}|{cls}', f'{detail} | region={rname} grid={grid} bound={bound} events(lon,lat,mag)={[(e[3], e[2], e[5]) for e in evs]}', rep))
    # A. space-magnitude counts
    try:
        got = numpy.asarray(cat().spatial_magnitude_counts(**kw), dtype=float)
        evals += 1
        hsh.update(got.tobytes())
        if not (all_in and all_mag):
            fail('spatial_magnitude_counts', 'out-of-range-event-not-rejected',
                 f'returned {got.tolist()} (total {got.sum()}) for {len(evs)} events of which some are outside the region / below the first edge; in-range reference {want.tolist()}')
        elif got.shape != want.shape or not numpy.array_equal(got, want):
            fail('spatial_magnitude_counts', 'wrong-cell-or-bin', f'got {got.tolist()}, expected {want.tolist()}')
        sm = got
    except Exception as e:
        evals += 1
        sm = None
        hsh.update(type(e).__name__.encode())
        if all_in and all_mag:
            fail('spatial_magnitude_counts', f'{type(e).__name__}', f'{type(e).__name__}: {e}')
    # B/C. spatial counts and occupancy
    sp = None
    try:
        sp = numpy.asarray(cat().spatial_counts(), dtype=float)
        evals += 1
        hsh.update(sp.tobytes())
        if not all_in and not quad:
            fail('spatial_counts', 'out-of-region-event-not-rejected', f'returned {sp.tolist()}')
        elif not numpy.array_equal(sp, want_sp):
            fail('spatial_counts', 'event-counted-in-wrong-cell', f'got {sp.tolist()}, expected {want_sp.tolist()}')
    except Exception as e:
        evals += 1
        if all_in:
            fail('spatial_counts', type(e).__name__, f'{type(e).__name__}: {e}')
    try:
        pr = numpy.asarray(cat().spatial_event_probability(), dtype=float)
        evals += 1
        if sp is not None and not numpy.array_equal(pr, (sp > 0).astype(float)):
            fail('spatial_event_probability', 'differs-from-positive-spatial-count', f'got {pr.tolist()}, spatial counts {sp.tolist()}')
    except Exception as e:
        evals += 1
        if all_in:
            fail('spatial_event_probability', type(e).__name__, f'{type(e).__name__}: {e}')
    # D. magnitude histogram
    mc = None
    try:
        mc = numpy.asarray(cat().magnitude_counts(**kw), dtype=float)
        evals += 1
        hsh.update(mc.tobytes())
        if mc.shape != want_mag.shape or not numpy.array_equal(mc, want_mag):
            fail('magnitude_counts', 'event-counted-in-wrong-bin', f'got {mc.tolist()}, expected {want_mag.tolist()} (edges {edges}, magnitudes {[e[5] for e in evs]})')
    except Exception as e:
        evals += 1
        fail('magnitude_counts', type(e).__name__, f'{type(e).__name__}: {e}')
    # E. equivalent magnitude-range filters (fresh catalog, and the history preview with in_place=False then apply in place)
    if mc is not None and len(evs) > 0:
        for k in range(nb):
            st = [f'magnitude >= {edges[k]!r}'] + ([f'magnitude < {edges[k + 1]!r}'] if k + 1 < nb else [])
            try:
                kept = cat().filter(st, in_place=False).event_count
                kept2 = int(mc[k])
                if hist:
                    hc = cat()
                    hc.filter(st, in_place=False)
                    hc.filter(st, in_place=True)
                    kept2 = hc.event_count
                evals += 2 if hist else 1
                if kept != int(mc[k]):
                    fail('magnitude_counts', 'differs-from-equivalent-range-filter', f'bin {k}: count {mc[k]}, filter {st} keeps {kept}')
                    break
                if kept2 != int(mc[k]):
                    fail('filter', 'in-place-filter-after-a-preview-keeps-other-events', f'bin {k}: count {mc[k]}; filter({st}, in_place=False) then filter(same, in_place=True) keeps {kept2}')
                    break
            except Exception as e:
                fail('filter', type(e).__name__, f'{type(e).__name__}: {e}')
                break
    # G. history: the same catalog object gridded on another region (same cells stored in reverse order), then re-bound
    if hist and all_in and all_mag and len(evs) > 0:
        try:
            hc = fixtures.catalog(evs, region=build_region(rname, edges if bound else None, reverse=True))
            for call in (lambda: hc.spatial_counts(), lambda: hc.spatial_magnitude_counts(**kw), lambda: hc.spatial_event_probability()):
                try:
                    call()
                except Exception:
                    pass
            hc.region = reg
            g_sp = numpy.asarray(hc.spatial_counts(), dtype=float)
            g_sm = numpy.asarray(hc.spatial_magnitude_counts(**kw), dtype=float)
            evals += 2
            if not (numpy.array_equal(g_sp, want_sp) and numpy.array_equal(g_sm, want)):
                fail('spatial_counts', 'stale-after-rebinding-the-catalog-to-another-region',
                     f'gridded on the same cells stored in reverse order, then catalog.region = this region: spatial {g_sp.tolist()} expected {want_sp.tolist()}; space-magnitude {g_sm.tolist()} expected {want.tolist()}')
        except Exception as e:
            fail('spatial_counts', f'{type(e).__name__}-after-rebinding', f'{type(e).__name__}: {e}')
    # H. history: an EXPLICIT magnitude grid is used once on a catalog whose region carries its own grid; afterwards the
    #    argument-free calls must still use the region's grid (and the caller's region must still carry it)
    if hist and bound and all_in and len(evs) > 0:
        try:
            hreg = build_region(rname, edges)
            hc = fixtures.catalog(evs, region=hreg)
            other = numpy.array([edges[0] - 1.0, edges[0] + 0.5, edges[0] + 2.0, edges[0] + 3.5])
            hc.magnitude_counts(mag_bins=other)
            evals += 1
            after = [float(x) for x in numpy.asarray(hreg.magnitudes)]
            if after != [float(x) for x in edges]:
                fail('magnitude_counts', 'callers-region-magnitudes-replaced-by-the-explicit-grid', f'region.magnitudes was {edges}, after magnitude_counts(mag_bins={other.tolist()}) it is {after}')
            else:
                h_mc = numpy.asarray(hc.magnitude_counts(), dtype=float)
                evals += 1
                if h_mc.shape != want_mag.shape or not numpy.array_equal(h_mc, want_mag):
                    fail('magnitude_counts', 'region-grid-not-used-after-a-call-with-an-explicit-grid', f'got {h_mc.tolist()}, expected {want_mag.tolist()}')
                if all_mag:
                    h_sm = numpy.asarray(hc.spatial_magnitude_counts(), dtype=float)
                    evals += 1
                    if h_sm.shape != want.shape or not numpy.array_equal(h_sm, want):
                        fail('spatial_magnitude_counts', 'region-grid-not-used-after-a-call-with-an-explicit-grid', f'got shape {h_sm.shape}, expected {want.shape}: {want.tolist()}')
        except Exception as e:
            fail('magnitude_counts', f'{type(e).__name__}-after-a-call-with-an-explicit-grid', f'{type(e).__name__}: {e}')
    # I. history (quadtree): the region was first used for get_cartesian() (what plotting a forecast does), then the catalog is gridded
    if quad and hist and len(evs) > 0:
        try:
            qreg = build_region(rname, edges if bound else None)
            qreg.get_cartesian(numpy.arange(len(qreg.polygons), dtype=float))
            try:
                q_sp = numpy.asarray(fixtures.catalog(evs, region=qreg).spatial_counts(), dtype=float)
            except Exception:
                q_sp = None                   # rejecting an out-of-region event is allowed
            evals += 1
            if q_sp is None:
                if all_in:
                    fail('spatial_counts', 'raises-after-get_cartesian', 'all events are inside the region')
            elif not numpy.array_equal(q_sp, want_sp):
                fail('spatial_counts', 'event-counted-in-wrong-cell-after-get_cartesian', f'after region.get_cartesian(): got {q_sp.tolist()}, expected {want_sp.tolist()}')
        except Exception as e:
            fail('get_cartesian', type(e).__name__, f'{type(e).__name__}: {e}')
    # F. marginal identities
    if sm is not None and all_in and all_mag:
        if sm.sum() != len(evs):
            fail('spatial_magnitude_counts', 'total-differs-from-number-of-events', f'total {sm.sum()} for {len(evs)} events')
        if sp is not None and not numpy.array_equal(sm.sum(axis=1), sp):
            fail('spatial_magnitude_counts', 'row-sums-differ-from-spatial-counts', f'{sm.sum(axis=1).tolist()} vs {sp.tolist()}')
        if mc is not None and not numpy.array_equal(sm.sum(axis=0), mc):
            fail('spatial_magnitude_counts', 'column-sums-differ-from-magnitude-counts', f'{sm.sum(axis=0).tolist()} vs {mc.tolist()}')
    return evals


def judge_zone(rname, grid, bound, letters, evs, reg, cells, bins, zone, edges, kw, failures, hsh):
    """Catalogs containing a magnitude one ulp below the first edge: either reading (first bin / uncounted) is allowed, but
    spatial_magnitude_counts and magnitude_counts must agree with each other and with one of the two readings."""
    quad = not rname.startswith('cart')
    cls = ('quadtree' if quad else 'cartesian') + ',magnitude-in-tolerance-zone-below-first-edge'
    rep = dict(kind='single', region=rname, grid=grid, bound=bound, letters=[list(l) for l in letters])
    n_cells, nb = len(reg.polygons), len(edges)

    def reading(zone_bin):
        w = numpy.zeros((n_cells, nb))
        ok = True
        for c, b, z in zip(cells, bins, zone):
            b = zone_bin if z else b
            if c is None or b < 0:
                ok = False
            else:
                w[c, b] += 1
        wm = numpy.zeros(nb)
        for b, z in zip(bins, zone):
            b = zone_bin if z else b
            if b >= 0:
                wm[b] += 1
        return ok, w, wm
    evals = 0
    got_mc = got_sm = None
    try:
        got_mc = numpy.asarray(fixtures.catalog(evs, region=reg).magnitude_counts(**kw), dtype=float)
        evals += 1
        hsh.update(got_mc.tobytes())
    except Exception as e:
        failures.append(Fail(f'CSEPCatalog.magnitude_counts|{type(e).__name__}|{cls}', f'{type(e).__name__}: {e}', rep))
    try:
        got_sm = numpy.asarray(fixtures.catalog(evs, region=reg).spatial_magnitude_counts(**kw), dtype=float)
        hsh.update(got_sm.tobytes())
    except Exception:
        got_sm = 'rejected'
    evals += 1
    verdicts = []
    for zb in (0, -1):
        ok, w, wm = reading(zb)
        good = got_mc is not None and numpy.array_equal(got_mc, wm)
        if ok:
            good = good and (not isinstance(got_sm, str)) and numpy.array_equal(got_sm, w)
        else:
            good = good and isinstance(got_sm, str)
        verdicts.append(good)
    if not any(verdicts):
        failures.append(Fail(f'CSEPCatalog.magnitude_counts|inconsistent-with-spatial_magnitude_counts|{cls}',
                             f'magnitude_counts={None if got_mc is None else got_mc.tolist()} spatial_magnitude_counts={got_sm if isinstance(got_sm, str) else got_sm.tolist()}: '
                             f'no single reading of the tolerance-zone magnitude (first bin / uncounted) explains both | region={rname} grid={grid} bound={bound} '
                             f'events(lon,lat,mag)={[(e[3], e[2], e[5]) for e in evs]}', rep))
    return evals


def run_large(case, failures, hsh):
    rname, n, bad = case['region'], case['n'], case['bad']
    edges = [4.95, 5.05, 5.15, 5.25, 5.35]
    if rname.startswith('cart'):
        reg0 = dict(cart_regions()[rname])
        reg0['flags'] = reg0['flags'] or [1] * len(reg0['cells'])
        centres = [(x + DH / 2, y + DH / 2) for i, (x, y) in enumerate(reg0['cells']) if reg0['flags'][i] == 1]
        corners = [(x, y) for i, (x, y) in enumerate(reg0['cells']) if reg0['flags'][i] == 1][::3]
        outside = (0.25, 0.25) if rname == 'cart6x5' else (0.25, 0.05)        # the hole / the missing column
    else:
        bs = [rq.bounds(k) for k in QUAD[rname]]
        centres = [((b[0] + b[2]) / 2, (b[1] + b[3]) / 2) for b in bs]
        corners = [(b[0], b[1]) for b in bs][::3]
        outside = (30.0, 86.0)
    pts = centres + corners
    mvals = [4.95, 5.0, 5.05, 5.2, 5.35, 7.7, 5.15]
    pos, mags, letters = [], [], []
    for i in range(n):
        pos.append(pts[(i * 7) % len(pts)])
        mags.append(mvals[(i * 3) % len(mvals)])
    k = {'first': 0, 'middle': n // 2, 'last': n - 1, 'below-mag-middle': n // 2}.get(bad)
    if bad in ('first', 'middle', 'last'):
        pos[k] = outside
    elif bad == 'below-mag-middle':
        mags[k] = 4.0
    # reuse the per-catalog judge with an explicit alphabet: positions/magnitudes indexed by event
    class L(list):
        pass
    positions = list(dict.fromkeys(pos))
    magnitudes = list(dict.fromkeys(mags))
    seq = [(positions.index(p), magnitudes.index(m)) for p, m in zip(pos, mags)]
    evals = 0
    for bound in (True, False):
        evals += judge_catalog(rname, 'large', bound, seq, positions, magnitudes, edges, failures, hsh, hist=(n <= 100), allow_zone=False)
    for f in failures:
        f['case'] = dict(case)
    return evals


DTYPE32 = numpy.dtype([('id', 'S256'), ('origin_time', '<i8'), ('latitude', '<f4'), ('longitude', '<f4'), ('depth', '<f4'), ('magnitude', '<f4')])


def run_f32(case, failures, hsh):
    """Catalogs stored in SINGLE precision (structured array with '<f4' columns). Only the clauses that do not depend on which
    side of an edge a single-precision value falls are judged: the histogram against the equivalent range filters, the total,
    and the marginal identities. Magnitudes: every edge and every mid-bin value (as float32), all at cell centres."""
    from csep.core.catalogs import CSEPCatalog
    rname, grid = case['region'], case['grid']
    edges = MAG_GRIDS[grid]
    quad = not rname.startswith('cart')
    evals = 0
    if quad:
        bs = [rq.bounds(k) for k in QUAD[rname]]
        centres = [((b[0] + b[2]) / 2, (b[1] + b[3]) / 2) for b in bs]
    else:
        reg0 = cart_regions()[rname]
        centres = [(x + DH / 2, y + DH / 2) for i, (x, y) in enumerate(reg0['cells']) if (reg0['flags'] is None or reg0['flags'][i] == 1)]
    mvals = list(edges) + [e + (edges[1] - edges[0]) / 2 if len(edges) > 1 else e + 0.3 for e in edges] + [edges[-1] + 2.0]
    for bound in (True, False):
        reg = build_region(rname, edges if bound else None)
        kw = {} if bound else dict(mag_bins=numpy.array(edges))
        rows = [(b'f%d' % i, 1262304000000 + i, centres[i % len(centres)][1], centres[i % len(centres)][0], 10.0, m) for i, m in enumerate(mvals * case['rep'])]
        data = numpy.array(rows, dtype=DTYPE32)
        rep = dict(case)
        cls = ('quadtree' if quad else 'cartesian') + ',single-precision-catalog'

        def fail(api, what, detail):
            failures.append(Fail(f'CSEPCatalog.{api}|{what}|{cls}', f'{detail} | region={rname} grid={grid} bound={bound} magnitudes(float32)={[float(x) for x in data["magnitude"][:12]]}', rep))
        try:
            mc = numpy.asarray(CSEPCatalog(data=data.copy(), region=reg).magnitude_counts(**kw), dtype=float)
            sm = numpy.asarray(CSEPCatalog(data=data.copy(), region=reg).spatial_magnitude_counts(**kw), dtype=float)
            sp = numpy.asarray(CSEPCatalog(data=data.copy(), region=reg).spatial_counts(), dtype=float)
            evals += 3
            hsh.update(mc.tobytes() + sm.tobytes())
            nb = len(edges)
            for k in range(nb):
                st = [f'magnitude >= {edges[k]!r}'] + ([f'magnitude < {edges[k + 1]!r}'] if k + 1 < nb else [])
                kept = CSEPCatalog(data=data.copy(), region=reg).filter(st, in_place=False).event_count
                evals += 1
                if kept != int(mc[k]):
                    fail('magnitude_counts', 'differs-from-equivalent-range-filter', f'bin {k}: count {mc[k]}, filter {st} keeps {kept}')
                    break
            if sm.sum() != len(rows):
                fail('spatial_magnitude_counts', 'total-differs-from-number-of-events', f'total {sm.sum()} for {len(rows)} events')
            if not numpy.array_equal(sm.sum(axis=0), mc):
                fail('spatial_magnitude_counts', 'column-sums-differ-from-magnitude-counts', f'{sm.sum(axis=0).tolist()} vs {mc.tolist()}')
            if not numpy.array_equal(sm.sum(axis=1), sp):
                fail('spatial_magnitude_counts', 'row-sums-differ-from-spatial-counts', f'{sm.sum(axis=1).tolist()} vs {sp.tolist()}')
        except Exception as e:
            fail('magnitude_counts', type(e).__name__, f'{type(e).__name__}: {e}')
    return evals


def run_tol(case, failures, hsh):
    """The documented tol= keyword of magnitude_counts / spatial_magnitude_counts. For every edge e the catalog holds
    e - tol/2, e - 2 tol, e, e + tol/2 (cell centres). Judged: only what the statement says for ANY one binning rule -
    the column sums of the space-magnitude array equal the magnitude histogram taken with the same tol, region-bound and
    explicit grids give the same arrays, the total is the number of events, and an event is rejected by the gridding exactly
    when the histogram leaves it uncounted. One catalog per magnitude value too, so that a rejection is attributed."""
    rname, grid, t = case['region'], case['grid'], case['tol']
    edges = MAG_GRIDS[grid]
    quad = not rname.startswith('cart')
    if quad:
        bs = [rq.bounds(k) for k in QUAD[rname]]
        centres = [((b[0] + b[2]) / 2, (b[1] + b[3]) / 2) for b in bs]
    else:
        reg0 = cart_regions()[rname]
        centres = [(x + DH / 2, y + DH / 2) for i, (x, y) in enumerate(reg0['cells']) if (reg0['flags'] is None or reg0['flags'][i] == 1)]
    mvals = []
    for e in edges:
        mvals += [e - t / 2, e - 2 * t, e, e + t / 2]
    cls = ('quadtree' if quad else 'cartesian') + ',explicit-tol'
    evals = 0
    groups = [mvals] + [[m] for m in mvals]
    for ms in groups:
        evs = [(f'e{i}', 1262304000000 + i, centres[i % len(centres)][1], centres[i % len(centres)][0], 10.0, m) for i, m in enumerate(ms)]
        obs = {}
        for bound in (True, False):
            reg = build_region(rname, edges if bound else None)
            kw = dict(tol=t) if bound else dict(mag_bins=numpy.array(edges), tol=t)
            rep = dict(case)

            def fail(api, what, detail):
                failures.append(Fail(f'CSEPCatalog.{api}|{what}|{cls}', f'{detail} | region={rname} grid={grid} bound={bound} tol={t} edges={edges} magnitudes={ms}', rep))
            try:
                mc = numpy.asarray(fixtures.catalog(evs, region=reg).magnitude_counts(**kw), dtype=float)
            except Exception as e:
                fail('magnitude_counts', type(e).__name__, f'{type(e).__name__}: {e}')
                continue
            try:
                sm = numpy.asarray(fixtures.catalog(evs, region=reg).spatial_magnitude_counts(**kw), dtype=float)
            except ValueError:
                sm = None
            except Exception as e:
                fail('spatial_magnitude_counts', type(e).__name__, f'{type(e).__name__}: {e}')
                continue
            evals += 2
            hsh.update(mc.tobytes() + (b'rejected' if sm is None else sm.tobytes()))
            obs[bound] = (mc, sm)
            uncounted = mc.sum() < len(evs)
            if mc.sum() > len(evs):
                fail('magnitude_counts', 'total-exceeds-number-of-events', f'{mc.tolist()} for {len(evs)} events')
            if sm is None and not uncounted:
                fail('spatial_magnitude_counts', 'rejects-a-catalog-the-histogram-counts-completely', f'magnitude_counts(tol)={mc.tolist()} counts all {len(evs)} events, spatial_magnitude_counts(tol) raised ValueError')
            elif sm is not None and uncounted:
                fail('spatial_magnitude_counts', 'below-range-event-not-rejected', f'magnitude_counts(tol)={mc.tolist()} leaves events uncounted, gridding returned total {sm.sum()}')
            elif sm is not None:
                if sm.sum() != len(evs):
                    fail('spatial_magnitude_counts', 'total-differs-from-number-of-events', f'total {sm.sum()} for {len(evs)} events')
                if not numpy.array_equal(sm.sum(axis=0), mc):
                    fail('spatial_magnitude_counts', 'column-sums-differ-from-magnitude-counts', f'{sm.sum(axis=0).tolist()} vs {mc.tolist()}')
        if True in obs and False in obs:
            (mb, sb), (me, se) = obs[True], obs[False]
            same = numpy.array_equal(mb, me) and ((sb is None) == (se is None)) and (sb is None or numpy.array_equal(sb, se))
            if not same:
                failures.append(Fail(f'CSEPCatalog.spatial_magnitude_counts|region-bound-and-explicit-grid-differ|{cls}',
                                     f'region-bound: mc={mb.tolist()} sm={"rejected" if sb is None else sb.sum(axis=0).tolist()}; explicit same edges: mc={me.tolist()} sm={"rejected" if se is None else se.sum(axis=0).tolist()} | region={rname} grid={grid} tol={t} magnitudes={ms}', dict(case)))
    return evals


def run_case(case):
    failures = []
    hsh = hashlib.sha1()
    evals = states = nontriv = 0
    if case['kind'] == 'tol':
        evals = run_tol(case, failures, hsh)
        seen, uniq = set(), []
        for f in failures:
            if f['signature'] not in seen:
                seen.add(f['signature'])
                uniq.append(f)
        return result(evals=evals, states=1 + 4 * len(MAG_GRIDS[case['grid']]), transitions=evals, nontrivial=1, failures=uniq, digest=hsh.hexdigest(), sample=dict(case))
    if case['kind'] == 'f32':
        evals = run_f32(case, failures, hsh)
        return result(evals=evals, states=2, transitions=evals, nontrivial=2, failures=failures, digest=hsh.hexdigest(), sample=dict(case))
    if case['kind'] == 'large':
        evals = run_large(case, failures, hsh)
        seen, uniq = set(), []
        for f in failures:
            if f['signature'] not in seen:
                seen.add(f['signature'])
                uniq.append(f)
        return result(evals=evals, states=1, transitions=evals, nontrivial=1, failures=uniq, digest=hsh.hexdigest(), sample=dict(case))
    if case['kind'] == 'single':
        rname, grid, bound = case['region'], case['grid'], case['bound']
        cats = [[tuple(l) for l in case['letters']]]
        perms = 'sorted'
    else:
        rname, grid, bound = case['region'], case['grid'], case['bound']
        perms = case['perms']
        cats = None
    pos = positions_for(rname)
    mags = mags_for(grid)
    edges = MAG_GRIDS[grid]
    letters = [(p, m) for p in range(len(pos)) for m in range(len(mags))]
    if cats is None:
        if not case.get('zone', True):
            letters = [l for l in letters if l[1] != 4]      # quick tier: the tolerance-zone letter only in catalogs of <= 2 events
        cats = [list(ms) for ms in itertools.combinations_with_replacement(letters, case['size'])]
        if case.get('part'):
            cats = cats[case['part'][0]::case['part'][1]]
        if not cats:
            return result(evals=0, states=0, transitions=0, nontrivial=0, failures=[], digest='empty', sample=dict(case))
    for ms in cats:
        for oi, seq in enumerate(orders(ms, perms)):
            evals += judge_catalog(rname, grid, bound, seq, pos, mags, edges, failures, hsh, hist=(oi == 0 and len(seq) <= 2) or case['kind'] == 'single')
            states += 1
        if len(set(ms)) < len(ms) or any(ref_cell(rname, *pos[p]) is None for p, m in ms) or any(m in (0, 1, 4) for p, m in ms):
            nontriv += 1
        if len(failures) > 300:
            break
    seen, uniq = set(), []
    for f in failures:
        if f['signature'] not in seen:
            seen.add(f['signature'])
            uniq.append(f)
    return result(evals=evals, states=states, transitions=evals, nontrivial=nontriv, failures=uniq, digest=hsh.hexdigest(),
                  sample=dict(region=rname, grid=grid, bound=bound, positions=pos, magnitudes=mags, example=[list(x) for x in cats[min(len(cats) - 1, 5)]]))
