"""C04 Catalog filtering keeps exactly the events that satisfy every statement.

Bounded-exhaustive exploration of CSEPCatalog.filter / filter_spatial / csep.load_catalog(apply_filters=True) on the
real implementation, judged by a plain-Python reference (`ref_filter`, below: a list comprehension over event tuples
with `operator` on Python numbers; datetime statements become integer milliseconds by `datetime` arithmetic).

Blocks (case kinds)
  single    every catalog (all sequences of length 0..3 | 0..4 over the 8-event alphabet) x every single statement
  lists     every ordered pair of statements (thorough: + every ordered triple over a 20-statement sub-alphabet) on
            the full 8-event catalog, its reversal and [], [e0], [e3] | every catalog of length 0..2
  bfs       state machine: state = surviving index set of the fixed 8-event catalog, transition = one statement;
            mc.bfs.explore to fixpoint from the full catalog and from every reachable non-initial state, both
            in_place modes
  spatial   filter_spatial on every non-empty cell subset of a 3x3 lattice and every poly-mask of the full lattice
  load      csep.load_catalog(path, apply_filters=True, filters=..., region=...) through a write_ascii file
  instants  datetime statement == origin_time statement for every millisecond instant of complete seconds
  large     catalogs of 1000 / 10001 / 30000 (thorough 100001) events in sorted, reversed and shuffled time order x 28 statements / lists
  spell     every spelling float()/int() accepts for the same threshold (exponent notation, explicit sign, bare point)
  scenario  one explicit (events, statements, variant, in_place) execution: the replay form of every failure
"""
import datetime
import hashlib
import itertools
import operator
import os
from decimal import Decimal

import numpy

from mc import bfs, fixtures, space
from mc.engine import Fail, result

ID = 'C04'
RULE = ('8-event alphabet (3 levels a-d,a,a+d of origin_time [d=1 ms around 2010-01-01T00:00:00], latitude, longitude, '
        'depth, magnitude; one exact duplicate); catalogs = every sequence of length 0..3 (thorough 0..4); statements = '
        '5 attributes x 5 operators x 3 thresholds + datetime x 5 operators x 4 instants (…59.999, whole second, .001, '
        '.250) + 10 half-millisecond (non-integer) thresholds on the integer origin_time column = 105; every single statement on every catalog; every ordered pair (thorough: + every ordered triple over '
        'a 20-statement sub-alphabet) on the full catalog, its reversal, [], [e0], [e3] (thorough: every catalog of length '
        '0..2; triples: length 0..1), each list '
        'applied as str/list/reversed tuple/one-by-one/twice + filter() from stored filters/filters= at construction, '
        'in_place True and False; BFS over surviving-index sets to fixpoint from the full catalog and from every '
        'reachable state; filter_spatial on all 511 cell subsets and all 512 masks of a 3x3 lattice with 25 probe events; '
        'load_catalog(apply_filters) through written files; every ms instant of complete seconds for datetime == '
        'origin_time. A (catalog, statement-list) case is non-trivial iff the reference keeps a proper non-empty subset '
        'of the events or some event attribute equals a threshold of the list; a spatial case is non-trivial iff some '
        'probe is kept and some is removed. Cases are distinct by construction (enumeration without repetition).')
ASSUMPTIONS = ['reference = list comprehension with Python operator on int/float event fields; thresholds parsed with '
               'int()/float() from the same text; datetime text -> ms by datetime/timedelta integer arithmetic',
               'attribute values between the three levels are not explored; probe events for the spatial filter are at '
               'cell centres (half a cell away from every edge), edge behaviour belongs to C01/C02',
               'a poly-mask flag 0 cell counts as outside the region (the library\'s own "valid cell" convention)',
               'files for load_catalog hold >= 1 event (the empty file is property C14\'s)']

# ----------------------------------------------------------------------------- alphabet
T0 = 1262304000000                      # 2010-01-01T00:00:00 UTC in epoch ms
FIELDS = ('id', 'origin_time', 'latitude', 'longitude', 'depth', 'magnitude')
ATTRS = ('origin_time', 'latitude', 'longitude', 'depth', 'magnitude')
LEVELS = {'origin_time': [T0 - 1, T0, T0 + 1],
          'latitude': [34.9, 35.0, 35.1],
          'longitude': [-120.1, -120.0, -119.9],
          'depth': [9.5, 10.0, 10.5],
          'magnitude': [4.9, 5.0, 5.1]}
# level index per attribute (origin_time, latitude, longitude, depth, magnitude)
_LEVEL_IDX = [(1, 1, 1, 1, 1), (0, 0, 0, 0, 0), (2, 2, 2, 2, 2), (0, 1, 2, 0, 1), (1, 2, 0, 2, 0), (2, 0, 1, 1, 2),
              (2, 1, 0, 0, 2)]
EVENTS = [tuple(['e%d' % k] + [LEVELS[a][ix[n]] for n, a in enumerate(ATTRS)]) for k, ix in enumerate(_LEVEL_IDX)]
EVENTS.append(EVENTS[0])                # exact duplicate (same id, same fields)
FULL = list(range(len(EVENTS)))
OPS = ('<', '<=', '>', '>=', '==')
OPF = {'<': operator.lt, '<=': operator.le, '>': operator.gt, '>=': operator.ge, '==': operator.eq}
EPOCH = datetime.datetime(1970, 1, 1)
MS = datetime.timedelta(milliseconds=1)
DT_INSTANTS = [T0 - 1, T0, T0 + 1, T0 + 250]       # ...59.999 (previous year), whole second, .001, .250
TRUNC_SIG = 'CSEPCatalog.filter[datetime]|threshold-1ms-low|float-truncation'


def fmt_dt(ms, style='auto'):
    """Text of an instant for a datetime statement (built with datetime arithmetic only)."""
    dt = EPOCH + ms * MS
    s = dt.strftime('%Y-%m-%d %H:%M:%S')
    milli = dt.microsecond // 1000
    if style == 'auto':
        return s if milli == 0 else s + '.%03d' % milli
    if style == 'ms':
        return s + '.%03d' % milli
    if style == 'us':
        return s + '.%06d' % dt.microsecond
    if style == 'short':                    # shortest fraction: .25 for 250 ms, .5 for 500 ms
        f = ('%03d' % milli).rstrip('0')
        return s + '.' + (f or '0')
    raise ValueError(style)


def statements_all():
    out = []
    for a in ATTRS:
        for op in OPS:
            for v in LEVELS[a]:
                out.append(f'{a} {op} {v!r}')
    for op in OPS:
        for ms in DT_INSTANTS:
            out.append(f'datetime {op} {fmt_dt(ms)}')
    # thresholds that are not whole numbers on the integer-typed origin_time column (half a millisecond either side of T0)
    for op in OPS:
        for v in (T0 - 0.5, T0 + 0.5):
            out.append(f'origin_time {op} {v!r}')
    return out


STATEMENTS = statements_all()           # 75 + 20 + 10


def statements_sub20():
    out = []
    for a in ATTRS:
        lo, mid, hi = LEVELS[a]
        out += [f'{a} >= {mid!r}', f'{a} <= {mid!r}', f'{a} > {lo!r}']
    out += [f'datetime >= {fmt_dt(T0)}', f'datetime < {fmt_dt(T0 + 1)}', f'datetime == {fmt_dt(T0)}',
            f'datetime <= {fmt_dt(T0 - 1)}', f'datetime > {fmt_dt(T0)}']
    return out


SUB20 = statements_sub20()
assert len(STATEMENTS) == 105 and len(SUB20) == 20 and all(s in STATEMENTS for s in SUB20)


# ----------------------------------------------------------------------------- reference model (no csep here)
_PARSED = {}


def ref_datetime_ms(date, time):
    """'YYYY-MM-DD', 'HH:MM:SS[.ffffff]' -> integer epoch ms (must be a whole number of ms)."""
    frac = ''
    if '.' in time:
        time, frac = time.split('.')
    dt = datetime.datetime.strptime(date + ' ' + time, '%Y-%m-%d %H:%M:%S')
    us = int((frac + '000000')[:6]) if frac else 0
    assert us % 1000 == 0 and len(frac) <= 6, 'harness only writes millisecond instants'
    return (dt - EPOCH) // MS + us // 1000


def ref_parse(stmt):
    """statement text -> (field index in the event tuple, python operator, python number, is_datetime)."""
    p = _PARSED.get(stmt)
    if p is None:
        tok = stmt.split(' ')
        if tok[0] == 'datetime':
            assert len(tok) == 4
            p = (1, OPF[tok[1]], ref_datetime_ms(tok[2], tok[3]), True)
        else:
            assert len(tok) == 3
            try:
                val = int(tok[2])
            except ValueError:
                val = float(tok[2])
            p = (FIELDS.index(tok[0]), OPF[tok[1]], val, False)
        _PARSED[stmt] = p
    return p


def ref_filter(events, stmts, dt_shift=None):
    """Indices (in original order) of the events for which every statement is true.

    dt_shift (only used to *classify* an already established failure): function instant_ms -> offset added to the
    threshold of datetime statements."""
    ps = [ref_parse(s) for s in stmts]
    if dt_shift is not None:
        ps = [(f, opf, thr + (dt_shift(thr) if isdt else 0), isdt) for f, opf, thr, isdt in ps]
    return [i for i, ev in enumerate(events) if all(opf(ev[f], thr) for f, opf, thr, isdt in ps)]


def float_truncation_offset(ms):
    """Pure-python description of the separately tracked defect (property C15, datetime_to_utc_epoch): the epoch is
    computed as int(1000.0 * seconds_as_float); for some instants the product is just below the integer and the
    result is 1 ms low. Returns -1 for such an instant, else 0. Only used to name the input class of a failure."""
    secs = (ms * MS).total_seconds()
    return int(1000.0 * secs) - ms


def ref_reachable(events, start, stmts):
    """Closure of index subsets reachable from `start` by single statements (pure python BFS)."""
    start = tuple(start)
    seen = {start: 0}
    frontier = [start]
    while frontier:
        nxt = []
        for st in frontier:
            sub = [events[i] for i in st]
            for s in stmts:
                k = tuple(st[j] for j in ref_filter(sub, [s]))
                if k not in seen:
                    seen[k] = seen[st] + 1
                    nxt.append(k)
        frontier = nxt
    return seen


def stmt_equals_level(events, stmts):
    for s in stmts:
        f, _, thr, _ = ref_parse(s)
        if any(ev[f] == thr for ev in events):
            return True
    return False


# ----------------------------------------------------------------------------- harness plumbing
class Ctx:
    def __init__(self):
        self.failures = []
        self.h = hashlib.sha1()
        self.evals = 0          # judged implementation calls
        self.calls = 0          # implementation calls
        self.states = 0
        self.nontrivial = 0
        self.counters = {}
        self.sets = {}
        self._nsig = {}

    def count(self, k, n=1):
        self.counters[k] = self.counters.get(k, 0) + n

    def fail(self, sig, detail, case):
        # keep the first few failures of each signature per case (simplest first); count the rest
        self._nsig[sig] = self._nsig.get(sig, 0) + 1
        if self._nsig[sig] <= 3:
            self.failures.append(Fail(sig, detail, case))
        else:
            self.count('failures_beyond_first_3_per_case_and_signature')

    def result(self, sample=None):
        return result(evals=self.evals, states=self.states, transitions=self.calls, nontrivial=self.nontrivial,
                      failures=self.failures, digest=self.h.hexdigest(), counters=self.counters, sets=self.sets,
                      sample=sample)


_SRC = {}


class Src:
    """A source catalog: the event tuples, the array the library built from them, its pristine bytes per row."""

    def __init__(self, events):
        from csep.core.catalogs import CSEPCatalog
        self.events = [tuple(e) for e in events]
        self.cat = CSEPCatalog(data=list(self.events))       # list-of-tuples constructor path, shared for in_place=False
        self.arr = self.cat.catalog.copy()
        self.raw = self.arr.tobytes()
        sz = self.arr.dtype.itemsize
        self.rows = [self.raw[k * sz:(k + 1) * sz] for k in range(len(self.events))]
        got = [(r[0].decode(),) + tuple(r[1:]) for r in self.arr.tolist()]
        self.ctor_ok = (got == self.events and self.arr.dtype == CSEPCatalog.dtype)

    def fresh(self, **kw):
        from csep.core.catalogs import CSEPCatalog
        return CSEPCatalog(data=self.arr.copy(), **kw)

    def shared(self):
        """Catalog reused across in_place=False calls; rebuilt if anything ever changed its bytes."""
        if self.cat.catalog.tobytes() != self.raw:
            from csep.core.catalogs import CSEPCatalog
            self.cat = CSEPCatalog(data=self.arr.copy())
        return self.cat


def get_src(events):
    key = tuple(tuple(e) for e in events)
    s = _SRC.get(key)
    if s is None:
        if len(_SRC) > 6000:
            _SRC.clear()
        s = _SRC[key] = Src(key)
    return s


def site_of(form):
    return 'CSEPCatalog.filter[str]' if form.endswith('str') else 'CSEPCatalog.filter[list]'


def exc_class(stmts_now, form):
    if any(s.startswith('datetime') for s in stmts_now):
        return 'datetime'
    return 'op:' + stmts_now[0].split(' ')[1] if form.endswith('str') else 'list'


def twin_of(stmt):
    """The origin_time statement for the same instant as a datetime statement (other statements unchanged)."""
    tok = stmt.split(' ')
    if tok[0] != 'datetime':
        return stmt
    return f'origin_time {tok[1]} {ref_datetime_ms(tok[2], tok[3])}'


def scen(events, stmts, variant, in_place):
    return dict(kind='scenario', events=[list(e) for e in events], stmts=list(stmts), variant=variant,
                in_place=bool(in_place))


def _direct_bytes(sub, stmts_now, as_str):
    """Bytes of an explicit-argument filter call on a fresh catalog (diagnosis of an established failure only)."""
    try:
        r = sub.fresh().filter(stmts_now[0] if as_str else list(stmts_now))
        return r.catalog.tobytes()
    except Exception as e:
        return ('exc', type(e).__name__)


def diagnose(src, base_keep, stmts_now, form, ob, exp):
    """Name call site / failure class / input class of an established wrong result so that one defect gives one
    signature per entry point: a filter() call from stored filters that is wrong in the same way as the explicit call
    is attributed to the explicit call; a datetime statement whose origin_time twin is right is 'datetime'."""
    sub = get_src([src.events[i] for i in base_keep])
    as_str = form.endswith('str')
    if form.startswith('noarg'):
        if _direct_bytes(sub, stmts_now, as_str) != ob:
            return 'CSEPCatalog.filter[filters=]', None, 'stored-filters'
    if any(s.startswith('datetime') for s in stmts_now):
        if _direct_bytes(sub, [twin_of(s) for s in stmts_now], as_str) == exp:
            return site_of(form), 'datetime-differs-from-origin_time', 'datetime'
    return site_of(form), None, ('op:' + stmts_now[0].split(' ')[1]) if as_str else 'list'


def judge_rows(ctx, site, cls, case, src, res, keep, applied, what, diag=None):
    """Compare the array of `res` with the reference subset `keep` of src (bytes: fields, order, dtype).

    diag = (base_keep, stmts_now, form) for filter calls (site/cls then come from diagnose())."""
    ctx.evals += 1
    arr = getattr(res, 'catalog', None)
    if not isinstance(arr, numpy.ndarray) or arr.dtype != src.arr.dtype or arr.ndim != 1:
        ctx.h.update(b'BADARRAY')
        ctx.fail(f'{site}|bad-array|{cls}', f'{what}: result has no structured event array of the catalog dtype '
                 f'({type(arr).__name__})', case)
        return False
    ob = arr.tobytes()
    ctx.h.update(ob)
    ctx.h.update(b'|')
    exp = b''.join(src.rows[i] for i in keep)
    if ob == exp and res.get_number_of_events() == len(keep):
        return True
    sz = src.arr.dtype.itemsize
    orow = [ob[k * sz:(k + 1) * sz] for k in range(len(ob) // sz)]
    erow = [src.rows[i] for i in keep]
    got = [_rowtxt(src, r) for r in orow]
    detail = (f'{what}: statements applied {list(applied)} on events {[e[0] for e in src.events]}: expected '
              f'{[src.events[i][0] for i in keep]} (indices {list(keep)}), got {got}')
    if applied and any(s.startswith('datetime') for s in applied):
        low = ref_filter(src.events, applied, dt_shift=float_truncation_offset)
        if low != list(keep) and ob == b''.join(src.rows[i] for i in low):
            ctx.fail(TRUNC_SIG, detail + ' == reference with the datetime threshold(s) whose float product '
                     '1000.0*seconds truncates taken 1 ms lower', case)
            return False
    if sorted(orow) == sorted(erow):
        kind = 'order-changed'
    elif any(r not in src.rows for r in orow):
        kind = 'fields-changed'
    else:
        kind = 'wrong-events'
    if diag is not None:
        site, k2, cls = diagnose(src, diag[0], diag[1], diag[2], ob, exp)
        if k2 is not None and kind == 'wrong-events':
            kind = k2
    ctx.fail(f'{site}|{kind}|{cls}', detail, case)
    return False


def _rowtxt(src, row):
    for i, r in enumerate(src.rows):
        if r == row:
            return src.events[i][0]
    return numpy.frombuffer(row, dtype=src.arr.dtype).tolist()[0]


def filter_step(ctx, case, src, cat, raw, base_keep, stmts_now, form, in_place, applied, what):
    """One judged filter call on `cat` (whose events are src[base_keep], bytes `raw`).

    form: 'str' | 'list' | 'tuple' (explicit argument) | 'noarg-str' | 'noarg-list' (filter() from stored filters).
    Judges: no exception, identity clause, source untouched (in_place=False), result rows == reference.
    Returns (result or None, ok)."""
    if form == 'str':
        args = (stmts_now[0],)
    elif form == 'list':
        args = (list(stmts_now),)
    elif form == 'tuple':
        args = (tuple(stmts_now),)
    else:
        args = ()
    dform = 'list' if form == 'tuple' else form
    ctx.calls += 1
    try:
        res = cat.filter(*args, in_place=in_place)
    except Exception as e:
        ctx.h.update(b'EXC' + type(e).__name__.encode())
        site = 'CSEPCatalog.filter[filters=]' if form.startswith('noarg') else site_of(dform)
        ctx.fail(f'{site}|{type(e).__name__}|{exc_class(stmts_now, dform)}', f'{what}: {type(e).__name__}: {e}', case)
        return None, False
    if in_place:
        if res is not cat:
            ctx.fail('CSEPCatalog.filter|not-self|in_place=True', f'{what}: in_place=True did not return self', case)
    else:
        if res is cat:
            ctx.fail('CSEPCatalog.filter|returned-self|in_place=False', f'{what}: in_place=False returned the source '
                     f'object', case)
        if cat.catalog.tobytes() != raw:
            ctx.fail('CSEPCatalog.filter|source-mutated|in_place=False', f'{what}: in_place=False changed the source '
                     f'catalog\'s event array', case)
    keep = [base_keep[j] for j in ref_filter([src.events[k] for k in base_keep], stmts_now)]
    ok = judge_rows(ctx, site_of(dform), exc_class(stmts_now, dform), case, src, res, keep, applied, what,
                    diag=(base_keep, stmts_now, dform))
    return res, ok


VARIANTS_SINGLE = ('str', 'str-twice', 'ctor-str', 'str-preview-then-apply', 'ctor-str-then-explicit', 'str-stale-statistics')
VARIANTS_LIST = ('list', 'tuple-reversed', 'one-by-one', 'twice', 'ctor', 'preview-then-apply', 'ctor-then-explicit', 'caller-list-reused', 'stale-statistics')


def run_scenario(ctx, events, stmts, variant, in_place):
    """Execute one variant on the real catalog and judge every intermediate and final array."""
    src = get_src(events)
    case = scen(events, stmts, variant, in_place)
    stmts = list(stmts)
    keep = ref_filter(src.events, stmts)
    if not src.ctor_ok:
        ctx.fail('CSEPCatalog.__init__|rows-differ|event-tuples', f'constructor stored {src.arr.tolist()} for '
                 f'{src.events}', case)
        return keep
    every = list(range(len(src.events)))
    start = (lambda **kw: src.fresh(**kw))       # never shared between calls: filter() records the statements on the source catalog
    w = f'{variant} in_place={in_place}'
    if variant in ('str', 'list'):
        filter_step(ctx, case, src, start(), src.raw, every, stmts, variant, in_place, stmts, w)
    elif variant == 'tuple-reversed':
        rs = stmts[::-1]
        filter_step(ctx, case, src, start(), src.raw, every, rs, 'tuple', in_place, rs, w)
    elif variant in ('str-twice', 'twice'):
        form = 'str' if variant == 'str-twice' else 'list'
        r, ok = filter_step(ctx, case, src, start(), src.raw, every, stmts, form, in_place, stmts, w + ' 1st')
        if ok:
            r2, ok = filter_step(ctx, case, src, r, r.catalog.tobytes(), keep, stmts, form, in_place, stmts,
                                 w + ' 2nd (re-apply)')
            if ok:
                filter_step(ctx, case, src, r2, r2.catalog.tobytes(), keep, stmts, 'noarg-' + form, in_place, stmts,
                            w + ' 3rd (filter() from stored filters)')
    elif variant in ('ctor-str', 'ctor'):
        form = 'str' if variant == 'ctor-str' else 'list'
        cat = src.fresh(filters=stmts[0] if form == 'str' else list(stmts))
        filter_step(ctx, case, src, cat, src.raw, every, stmts, 'noarg-' + form, in_place, stmts, w)
    elif variant in ('str-preview-then-apply', 'preview-then-apply'):
        # history on ONE catalog object: look at the result without touching the catalog, then apply the same statements in place
        form = 'str' if variant.startswith('str') else 'list'
        cat = start()
        r, ok = filter_step(ctx, case, src, cat, src.raw, every, stmts, form, False, stmts, w + ' preview (in_place=False)')
        if ok:
            filter_step(ctx, case, src, cat, src.raw, every, stmts, form, True, stmts, w + ' then the same statements in place')
    elif variant in ('ctor-str-then-explicit', 'ctor-then-explicit'):
        # statements given at construction (recorded, not applied), then passed explicitly
        form = 'str' if variant.startswith('ctor-str') else 'list'
        cat = src.fresh(filters=stmts[0] if form == 'str' else list(stmts))
        filter_step(ctx, case, src, cat, src.raw, every, stmts, form, in_place, stmts, w)
    elif variant == 'caller-list-reused':
        # the CALLER's list object: used for a preview, the preview is filtered further in place, a catalog is built with
        # filters=<the list> and filtered further in place; the list must still say what the caller wrote, and using it again
        # on a fresh catalog must keep exactly the reference subset
        lst = list(stmts)
        extra = 'depth >= -1.0'                                  # true for every event of the alphabet
        try:
            r = start().filter(lst, in_place=False)
            r.filter(extra, in_place=True)
            r.filter([extra], in_place=True)
            c2 = src.fresh(filters=lst)
            c2.filter(in_place=True)
            c2.filter(extra, in_place=True)
            c2.filter([extra], in_place=True)
        except Exception as e:
            ctx.fail(f'CSEPCatalog.filter[list]|{type(e).__name__}|caller-list-history', f'{w}: {type(e).__name__}: {e}', case)
            return keep
        ctx.calls += 7
        if lst != stmts:
            ctx.fail('CSEPCatalog.filter[list]|callers-statement-list-modified|caller-list-history',
                     f'{w}: the list passed by the caller was {stmts}, after further in-place filtering of the returned catalogs it is {lst}', case)
        filter_step(ctx, case, src, start(), src.raw, every, lst, 'list', in_place, stmts, w + ' (same list object again)')
    elif variant in ('stale-statistics', 'str-stale-statistics'):
        # history: summary statistics were computed while the catalog held only events that satisfy the statements; then
        # (a) new events are assigned (constructed with compute_stats=False, statistics requested once by hand), or
        # (b) the rows of the event array are overwritten in place. The filter must see the CURRENT events.
        from csep.core.catalogs import CSEPCatalog
        form = 'str' if variant.startswith('str') else 'list'
        if keep and len(keep) < len(src.events):
            A = src.arr[keep].copy()
            try:
                cat = CSEPCatalog(data=A, compute_stats=False)
                cat.update_catalog_stats()
                str(cat)
                cat.catalog = src.arr.copy()
            except Exception as e:
                ctx.fail(f'CSEPCatalog.catalog|{type(e).__name__}|stale-statistics', f'{w}: {type(e).__name__}: {e}', case)
                return keep
            filter_step(ctx, case, src, cat, src.raw, every, stmts, form, in_place, stmts, w + ' (events assigned after the statistics were taken)')
            B = src.arr.copy()
            B[:] = src.arr[keep[0]]
            try:
                cat = CSEPCatalog(data=B)
                str(cat)
                cat.catalog[:] = src.arr
            except Exception as e:
                ctx.fail(f'CSEPCatalog.catalog|{type(e).__name__}|stale-statistics', f'{w}: {type(e).__name__}: {e}', case)
                return keep
            filter_step(ctx, case, src, cat, src.raw, every, stmts, form, in_place, stmts, w + ' (event rows overwritten in place after construction)')
    elif variant == 'one-by-one':
        cat, raw, base = start(), src.raw, every
        for n, s in enumerate(stmts):
            r, ok = filter_step(ctx, case, src, cat, raw, base, [s], 'str', in_place, stmts[:n + 1], f'{w} step {n}')
            if not ok:
                break
            cat, raw, base = r, r.catalog.tobytes(), ref_filter(src.events, stmts[:n + 1])
    else:
        raise ValueError(variant)
    return keep


def note_case(ctx, src, stmts, keep):
    ctx.states += 1
    if 0 < len(keep) < len(src.events) or stmt_equals_level(src.events, stmts):
        ctx.nontrivial += 1


# ----------------------------------------------------------------------------- block: single statements
def run_single(ctx, case):
    for seq in case['cats']:
        events = [EVENTS[i] for i in seq]
        src = get_src(events)
        twin = {}
        for s in STATEMENTS:
            for ip in (False, True):
                for v in VARIANTS_SINGLE:
                    keep = run_scenario(ctx, events, [s], v, ip)
            note_case(ctx, src, [s], keep)
            twin[s] = keep
        # clause "datetime statement == origin_time statement for the same instant" (reference side: same subset;
        # implementation side judged above against that same subset for both spellings)
        for s in STATEMENTS:
            if s.startswith('datetime'):
                tok = s.split(' ')
                o = f'origin_time {tok[1]} {ref_datetime_ms(tok[2], tok[3])}'
                if o in twin:
                    assert twin[o] == twin[s]
                    ctx.count('datetime_vs_origin_time_pairs')
    return dict(catalog=case['cats'][0], statements=STATEMENTS[:3] + STATEMENTS[-2:])


# ----------------------------------------------------------------------------- block: statement lists
def run_lists(ctx, case):
    events = [EVENTS[i] for i in case['cat']]
    src = get_src(events)
    alpha = SUB20 if case.get('alpha') == 'sub20' else STATEMENTS
    n = case['n']
    last = None
    for first in case['firsts']:
        for rest in itertools.product(range(len(alpha)), repeat=n - 1):
            stmts = [alpha[first]] + [alpha[j] for j in rest]
            for ip in (False, True):
                for v in VARIANTS_LIST:
                    keep = run_scenario(ctx, events, stmts, v, ip)
            note_case(ctx, src, stmts, keep)
            last = stmts
    return dict(catalog=case['cat'], last_list=last)


# ----------------------------------------------------------------------------- block: state machine
class Holder:
    def __init__(self, cat):
        self.cat = cat


def run_bfs(ctx, case):
    start = list(case['start'])
    in_place = case['in_place']
    full = get_src(EVENTS)
    events = [EVENTS[i] for i in start]
    src = get_src(events)                     # a catalog built directly from the state's events
    fcase = lambda hist, op: scen(events, list(hist) + [op], 'one-by-one', in_place)
    if not src.ctor_ok:
        ctx.fail('CSEPCatalog.__init__|rows-differ|event-tuples', 'constructor changed rows', scen(events, [], 'list', True))
        return None

    def build():
        return Holder(src.fresh())

    def apply_op(hold, op):
        cat = hold.cat
        before = cat.catalog.tobytes()
        try:
            r = cat.filter(op, in_place=in_place)
        except Exception as e:
            return ('exc', type(e).__name__, str(e), before)
        ident = (r is cat)
        untouched = in_place or cat.catalog.tobytes() == before
        hold.cat = r
        return ('ok', ident, untouched, before)

    def canon(hold):
        a = getattr(hold.cat, 'catalog', None)
        return a.tobytes() if isinstance(a, numpy.ndarray) else repr(a)

    def judge(hist, op, obs, hold):
        ctx.calls += 1
        applied = list(hist) + [op]
        base = ref_filter(src.events, hist)
        if obs[3] != b''.join(src.rows[i] for i in base):
            # the state this transition starts from is already a judged-wrong state: its failure has been reported
            # at the transition that produced it; transitions out of it are explored but not judged again
            ctx.count('bfs_transitions_from_already_wrong_state')
            return
        w = f'bfs in_place={in_place} state after history {applied}'
        if obs[0] == 'exc':
            ctx.h.update(repr(obs[:3]).encode())
            ctx.fail(f'CSEPCatalog.filter[str]|{obs[1]}|{exc_class([op], "str")}', f'{w}: {obs[1]}: {obs[2]}',
                     fcase(hist, op))
            return
        if in_place and not obs[1]:
            ctx.fail('CSEPCatalog.filter|not-self|in_place=True', w, fcase(hist, op))
        if not in_place and obs[1]:
            ctx.fail('CSEPCatalog.filter|returned-self|in_place=False', w, fcase(hist, op))
        if not obs[2]:
            ctx.fail('CSEPCatalog.filter|source-mutated|in_place=False', w, fcase(hist, op))
        judge_rows(ctx, 'CSEPCatalog.filter[str]', exc_class([op], 'str'), fcase(hist, op), src, hold.cat,
                   ref_filter(src.events, applied), applied, w, diag=(base, [op], 'str'))

    out = bfs.explore(build, STATEMENTS, apply_op, canon, judge, max_depth=len(events) + 2)
    ref = ref_reachable(src.events, range(len(events)), STATEMENTS)
    ref_keys = {b''.join(src.rows[i] for i in k) for k in ref}
    got_keys = set(out['state_histories'])
    ctx.states += out['states']
    ctx.count('bfs_states', out['states'])
    ctx.count('bfs_transitions', out['transitions'])
    ctx.count('bfs_op_executions', out['op_executions'])
    ctx.count('bfs_runs')
    ctx.sets.setdefault('bfs_depths', []).append(out['max_depth_reached'])
    ctx.nontrivial += sum(1 for k in ref if 0 < len(k) < len(events))
    # `calls` counted the judged transition only; add the history replays the explorer executed
    ctx.calls += out['op_executions'] - out['transitions']
    if not out['fixpoint_reached']:
        ctx.fail('mc.bfs.explore|no-fixpoint|state-machine', f'search from {start} truncated', dict(case))
    if got_keys != ref_keys:
        ctx.fail('CSEPCatalog.filter[str]|reachable-set-differs|state-machine',
                 f'from state {start} (in_place={in_place}) implementation reaches {len(got_keys)} states, reference '
                 f'{len(ref_keys)}; missing {len(ref_keys - got_keys)}, extra {len(got_keys - ref_keys)}', dict(case))
    if start == FULL:
        # the start states enumerated by cases() are exactly the non-initial states reached by the implementation
        ctx.sets['bfs_reachable_from_full'] = sorted(
            [list(k) for k in ref if b''.join(full.rows[i] for i in k) in got_keys])
    return dict(start=start, in_place=in_place, states=out['states'], transitions=out['transitions'],
                max_depth=out['max_depth_reached'], fixpoint=out['fixpoint_reached'])


def bfs_start_states():
    ref = ref_reachable(EVENTS, FULL, STATEMENTS)
    return sorted((list(k) for k in ref), key=lambda k: (-len(k), k))


# ----------------------------------------------------------------------------- block: spatial
LAT_C = [float(Decimal('34.9') + Decimal('0.1') * j) for j in range(-1, 4)]       # centres of rows -1..3
LON_C = [float(Decimal('-120.1') + Decimal('0.1') * i) for i in range(-1, 4)]     # centres of columns -1..3
LAT_O = [float(Decimal('34.85') + Decimal('0.1') * j) for j in range(3)]           # cell origins rows 0..2
LON_O = [float(Decimal('-120.15') + Decimal('0.1') * i) for i in range(3)]
DH = 0.1
CELLS = [(i, j) for j in range(3) for i in range(3)]                               # bit k of a subset = CELLS[k]
PROBES = [(i, j) for j in range(-1, 4) for i in range(-1, 4)]
PROBE_EVENTS = [('p%d_%d' % (i + 1, j + 1), T0 + n, LAT_C[j + 1], LON_C[i + 1], 10.0, 5.0)
                for n, (i, j) in enumerate(PROBES)]
assert LAT_C[1:4] == LEVELS['latitude'] and LON_C[1:4] == LEVELS['longitude']


# the same lattice moved across the antimeridian in the 0..360 longitude convention (origins 179.85, 179.95, 180.05)
_WEST = dict(LON_C=LON_C, LON_O=LON_O, PROBE_EVENTS=PROBE_EVENTS)
_EAST = dict(LON_C=[float(Decimal('179.9') + Decimal('0.1') * i) for i in range(-1, 4)],
             LON_O=[float(Decimal('179.85') + Decimal('0.1') * i) for i in range(3)])
_EAST['PROBE_EVENTS'] = [('p%d_%d' % (i + 1, j + 1), T0 + n, LAT_C[j + 1], _EAST['LON_C'][i + 1], 10.0, 5.0) for n, (i, j) in enumerate(PROBES)]


def _use(east):
    globals().update(_EAST if east else _WEST)


def cells_of(bits):
    return [CELLS[k] for k in range(9) if bits >> k & 1]


def make_region(cells, mask=None):
    return fixtures.cartesian_region([(LON_O[i], LAT_O[j]) for i, j in cells], DH, mask=mask)


def region_class(cells, mask):
    if mask is not None:
        return 'masked-cells'
    if len({i for i, _ in cells}) == 1 or len({j for _, j in cells}) == 1:
        return 'single-row-or-column-region'
    return 'multi-row-and-column-region'


def cell_of_event(ev):
    """(column, row) lattice index of an event placed at a cell centre (exact float identity, no arithmetic)."""
    return LON_C.index(ev[3]) - 1, LAT_C.index(ev[2]) - 1


def run_spatial_one(ctx, events, bits, maskbits, mode, in_place):
    """mode 'arg': filter_spatial(region); mode 'bound': region given at construction, filter_spatial()."""
    if maskbits is None:
        cells, mask = cells_of(bits), None
        active = set(cells)
    else:
        cells = list(CELLS)
        mask = [maskbits >> k & 1 for k in range(9)]
        active = {c for c, m in zip(cells, mask) if m == 1}
    case = dict(kind='spatial1', events=[list(e) for e in events], bits=bits, maskbits=maskbits, mode=mode,
                in_place=in_place, east=(LON_O is _EAST['LON_O']))
    cls = region_class(cells, mask) + (',longitudes-above-180' if case['east'] else '')
    site = 'CSEPCatalog.filter_spatial'
    src = get_src(events)
    region = make_region(cells, mask)
    keep = [n for n, ev in enumerate(src.events) if cell_of_event(ev) in active]
    if mode == 'bound':
        cat = src.fresh(region=region)
    elif mode == 'rebound':
        # explicit history: the catalog is already bound to ANOTHER region, then filtered with this one
        other = make_region(list(CELLS)) if (maskbits is not None or bits != 0b111111111) else make_region([CELLS[0]])
        cat = src.fresh(region=other)
    else:
        cat = src.fresh()       # never shared: filter_spatial binds the region to the source catalog
    ctx.calls += 1
    w = f'filter_spatial[{mode}] in_place={in_place} cells={cells} mask={mask}'
    try:
        r = cat.filter_spatial(in_place=in_place) if mode == 'bound' else cat.filter_spatial(region, in_place=in_place)
        if mode == 'rebound' and not in_place:
            # second step of the history: the source was re-bound by the call; filtering it again with the first region
            pass
    except Exception as e:
        ctx.h.update(b'EXC' + type(e).__name__.encode())
        ctx.fail(f'{site}|{type(e).__name__}|{cls}', f'{w}: {type(e).__name__}: {e}', case)
        return keep
    if in_place and r is not cat:
        ctx.fail(f'{site}|not-self|in_place=True', w, case)
    if not in_place:
        if r is cat:
            ctx.fail(f'{site}|returned-self|in_place=False', w, case)
        if cat.catalog.tobytes() != src.raw:
            ctx.fail(f'{site}|source-mutated|in_place=False', w, case)
    judge_rows(ctx, site, cls, case, src, r, keep, [], w)
    return keep


def spatial_catalogs():
    cats = [[]] + [[n] for n in range(25)] + [list(range(25)), list(range(24, -1, -1))]
    return cats


def run_spatial(ctx, case):
    _use(case.get('east', False))
    try:
        return _run_spatial(ctx, case)
    finally:
        _use(False)


def _run_spatial(ctx, case):
    cats = spatial_catalogs()
    items = [(b, None) for b in case.get('regions', [])] + [(None, m) for m in case.get('masks', [])]
    for bits, maskbits in items:
        for seq in cats:
            events = [PROBE_EVENTS[n] for n in seq]
            for ip in (False, True):
                for mode in ('arg', 'bound', 'rebound'):
                    if mode in ('bound', 'rebound') and len(seq) == 1:
                        continue
                    keep = run_spatial_one(ctx, events, bits, maskbits, mode, ip)
            ctx.states += 1
            if 0 < len(keep) < len(events):
                ctx.nontrivial += 1
    return dict(regions=case.get('regions', [])[:2], masks=case.get('masks', [])[:2], probes=len(PROBE_EVENTS))


# ----------------------------------------------------------------------------- block: load_catalog(apply_filters)
LOAD_REGIONS = [None, 0b101101111, 0b000011011]      # none; 7 cells with holes; the lower-left 2x2 block


def run_load_one(ctx, events, stmts, bits, as_str=False, path=None):
    import csep
    from csep.core.catalogs import CSEPCatalog
    src = get_src(events)
    case = dict(kind='load1', events=[list(e) for e in events], stmts=list(stmts), bits=bits, as_str=as_str)
    cls = ('region' if bits is not None else 'no-region')
    site = 'csep.load_catalog[apply_filters]'
    own = path is None
    if own:
        path = os.path.join(fixtures.workdir(), 'c04_replay.csv')
        CSEPCatalog(data=src.arr.copy()).write_ascii(path)
    try:
        region = make_region(cells_of(bits)) if bits is not None else None
        keep = ref_filter(src.events, stmts)
        if bits is not None:
            active = set(cells_of(bits))
            keep = [n for n in keep if cell_of_event(src.events[n]) in active]
        filt = stmts[0] if as_str else list(stmts)
        w = f'load_catalog(apply_filters=True, filters={filt!r}, region cells={cells_of(bits) if bits is not None else None})'
        # the same steps applied directly, judged stage by stage first: a defect of filter / filter_spatial itself is
        # reported at its own call site; what remains for load_catalog is "gives the same catalog as filtering directly"
        every = list(range(len(src.events)))
        r, ok = filter_step(ctx, case, src, src.fresh(), src.raw, every, stmts, 'str' if as_str else 'list', True,
                            stmts, 'direct filter before ' + w)
        if ok and region is not None:
            ctx.calls += 1
            try:
                r = r.filter_spatial(region)
            except Exception as e:
                ctx.fail(f'CSEPCatalog.filter_spatial|{type(e).__name__}|{region_class(cells_of(bits), None)}',
                         f'direct filter_spatial before {w}: {type(e).__name__}: {e}', case)
                ok = False
            else:
                ok = judge_rows(ctx, 'CSEPCatalog.filter_spatial', region_class(cells_of(bits), None), case, src, r,
                                keep, stmts, 'direct filter + filter_spatial before ' + w)
        if not ok:
            ctx.count('load_not_judged_because_direct_path_failed')
            return keep
        ctx.calls += 1
        try:
            kw = dict(filters=filt)
            if region is not None:
                kw['region'] = region
            loaded = csep.load_catalog(path, apply_filters=True, **kw)
        except Exception as e:
            ctx.h.update(b'EXC' + type(e).__name__.encode())
            ctx.fail(f'{site}|{type(e).__name__}|{cls}', f'{w}: {type(e).__name__}: {e}', case)
            return keep
        if judge_rows(ctx, site, cls, case, src, loaded, keep, stmts, w):
            if loaded.catalog.tobytes() != r.catalog.tobytes():      # (implied by both == reference; kept explicit)
                ctx.fail(f'{site}|differs-from-direct-filter|{cls}', w, case)
        return keep
    finally:
        if own and os.path.exists(path):
            os.remove(path)


def run_load(ctx, case):
    import csep
    from csep.core.catalogs import CSEPCatalog
    d = fixtures.workdir()
    for seq in case['cats']:
        events = [EVENTS[i] for i in seq]
        src = get_src(events)
        path = os.path.join(d, 'c04_%s.csv' % ''.join(map(str, seq)))
        CSEPCatalog(data=src.arr.copy()).write_ascii(path)
        try:
            # precondition owned by C14: the file round trip itself is exact for these events
            ctx.calls += 1
            try:
                plain = csep.load_catalog(path)
                rt = plain.catalog.tobytes() == src.raw
            except Exception as e:
                rt = False
            if not rt:
                ctx.count('load_roundtrip_not_exact_undecided')
                ctx.fail('csep.load_catalog|roundtrip-differs|plain-file', f'write_ascii + load_catalog without filters '
                         f'does not reproduce events {src.events}', dict(kind='load', cats=[seq], lists='none'))
                continue
            if case['lists'] == 'singles':
                lists = [[s] for s in STATEMENTS]
            elif case['lists'] == 'none':
                lists = []
            else:
                lists = [[SUB20[f], s2] for f in case['firsts'] for s2 in SUB20]
            for stmts in lists:
                for bits in LOAD_REGIONS:
                    keep = run_load_one(ctx, events, stmts, bits, as_str=False, path=path)
                    ctx.states += 1
                    if 0 < len(keep) < len(events):
                        ctx.nontrivial += 1
                if len(stmts) == 1:
                    run_load_one(ctx, events, stmts, LOAD_REGIONS[1], as_str=True, path=path)
        finally:
            if os.path.exists(path):
                os.remove(path)
    return dict(catalogs=case['cats'][:2], lists=case['lists'], regions=LOAD_REGIONS)


# ----------------------------------------------------------------------------- block: millisecond instants
def run_instants(ctx, case):
    base, lo, n = case['base'], case['lo'], case['n']
    styles = case.get('styles', ['auto'])
    for a in range(base + lo, base + lo + n):
        events = [('t0', a - 1, 35.0, -120.0, 10.0, 5.0), ('t1', a, 35.0, -120.0, 10.0, 5.0),
                  ('t2', a + 1, 35.0, -120.0, 10.0, 5.0), ('t1', a, 35.0, -120.0, 10.0, 5.0)]
        src = get_src(events)
        for op in OPS:
            so = f'origin_time {op} {a}'
            keep = run_scenario(ctx, events, [so], 'str', False)
            for st in styles:
                if st == 'short' and a % 1000 == 0:
                    continue
                sd = f'datetime {op} {fmt_dt(a, st)}'
                k2 = run_scenario(ctx, events, [sd], 'str', False)
                assert k2 == keep
                run_scenario(ctx, events, [sd, so], 'list', True)
                ctx.count('datetime_vs_origin_time_pairs')
            note_case(ctx, src, [so], keep)
        _SRC.pop(tuple(src.events), None)
    return dict(first_instant=base + lo, text=fmt_dt(base + lo), n=n, styles=styles)


def _ms(y, mo, d, h=0, mi=0, s=0):
    return (datetime.datetime(y, mo, d, h, mi, s) - EPOCH) // MS


CORE_SECONDS = [T0, T0 - 1000, 1000]                       # 2010-01-01T00:00:00, 2009-12-31T23:59:59, 1970-01-01T00:00:01
SEED_SECONDS = [_ms(1978, 7, 17, 5, 6, 46), _ms(1992, 6, 28, 11, 57, 34), _ms(1999, 12, 31, 23, 59, 59),
                _ms(2023, 2, 6, 1, 17, 35)]
THOROUGH_SECONDS = [0, -1000, _ms(1906, 4, 18, 13, 12, 21), _ms(2038, 1, 19, 3, 14, 7)]


# ----------------------------------------------------------------------------- enumeration
def cases(tier, seed):
    yield from space.with_time_zones(_cases(tier, seed), 12)


def _cases(tier, seed):
    for n in (1000, 10001, 30000) + ((100001,) if tier == 'thorough' else ()):
        for order in ('shuffled', 'reversed', 'sorted'):
            yield dict(kind='large', n=n, order=order)
    for attr in SPELLINGS:
        yield dict(kind='spell', attrs=[attr])
    quick = (tier == 'quick')
    # A: single statements on every catalog, shortest catalogs first
    for n in range(0, 4):
        for chunk in space.chunks(itertools.product(range(len(EVENTS)), repeat=n), 8):
            yield dict(kind='single', cats=[list(c) for c in chunk])
    # C (part 1): the state machine from the full catalog (the two longest cases: scheduled early)
    for ip in (True, False):
        yield dict(kind='bfs', start=FULL, in_place=ip)
    if not quick:
        for chunk in space.chunks(itertools.product(range(len(EVENTS)), repeat=4), 8):
            yield dict(kind='single', cats=[list(c) for c in chunk])
    # F: instants
    secs = CORE_SECONDS + ([SEED_SECONDS[seed % len(SEED_SECONDS)]] if quick else SEED_SECONDS + THOROUGH_SECONDS)
    for b in secs:
        for lo in range(0, 1000, 125):
            yield dict(kind='instants', base=b, lo=lo, n=125, styles=['auto'])
    for b in (T0, 1000):
        for lo in range(0, 1000, 250):
            yield dict(kind='instants', base=b, lo=lo, n=250, styles=['ms', 'us', 'short'])
    # B: lists
    list_cats = [FULL, FULL[::-1]] + ([[], [0], [3]] if quick else
                                      [list(c) for c in space.sequences(range(len(EVENTS)), 0, 2)])
    for cat in list_cats:
        for firsts in space.chunks(range(len(STATEMENTS)), 3):
            yield dict(kind='lists', cat=cat, firsts=firsts, n=2)
    if not quick:
        for cat in [FULL, FULL[::-1]] + [list(c) for c in space.sequences(range(len(EVENTS)), 0, 1)]:
            for f in range(len(SUB20)):
                yield dict(kind='lists', cat=cat, firsts=[f], n=3, alpha='sub20')
    # C (part 2): state machine from every reachable non-initial state (reference closure; the FULL case checks
    # that the implementation reaches exactly these)
    for st in bfs_start_states():
        if st != FULL:
            for ip in (True, False):
                yield dict(kind='bfs', start=st, in_place=ip)
    # D: spatial
    for chunk in space.chunks(range(1, 512), 8):
        yield dict(kind='spatial', regions=chunk)
    for chunk in space.chunks(range(0, 512), 8):
        yield dict(kind='spatial', masks=chunk)
    # the same lattice across the antimeridian (0..360 convention): every 8th subset / mask (thorough: all)
    st_ = 8 if quick else 1
    for chunk in space.chunks(list(range(511, 0, -st_)), 8):
        yield dict(kind='spatial', regions=chunk, east=True)
    for chunk in space.chunks(list(range(511, -1, -st_)), 8):
        yield dict(kind='spatial', masks=chunk, east=True)
    # E: load_catalog
    load_cats = [FULL] + [list(c) for c in space.sequences(range(len(EVENTS)), 1, 2 if quick else 3)]
    for chunk in space.chunks(load_cats, 2):
        yield dict(kind='load', cats=chunk, lists='singles')
    for f in range(len(SUB20)):
        yield dict(kind='load', cats=[FULL], lists='pairs', firsts=[f])


def large_events(n, order):
    ev = []
    for i in range(n):
        k = {'sorted': i, 'reversed': n - 1 - i, 'shuffled': (i * 7919) % n}[order]      # 7919 is prime: a permutation for n not a multiple
        ev.append(('L%d' % i, T0 + 1000 * k, 30.0 + (i % 100) / 10, -120.0 + (i % 70) / 10, float(i % 30), 4.0 + (i % 40) / 10))
    return ev


def large_statements(n):
    a, b = T0 + 1000 * (n // 3), T0 + 1000 * (2 * n // 3)
    singles = [[f'origin_time {op} {v}'] for op in OPS for v in (a, b)]
    singles += [[f'datetime {op} {fmt_dt(a)}'] for op in OPS]
    singles += [['magnitude >= 5.0'], ['depth < 10.0'], ['latitude <= 35.0']]
    lists = [[f'origin_time >= {a}', f'origin_time < {b}'], [f'origin_time < {b}', f'origin_time >= {a}'],
             ['magnitude >= 7.5', f'datetime > {fmt_dt(a)}'], [f'datetime > {fmt_dt(a)}', 'magnitude >= 7.5'],
             ['depth < 3.0', 'magnitude >= 7.0', f'origin_time <= {b}'], [f'origin_time <= {b}', 'magnitude >= 7.0', 'depth < 3.0']]
    return singles + lists


def run_large(ctx, case):
    """Catalogs of thousands of events in sorted, reversed and shuffled time order; every time statement form, single and in lists
    of both orders. Judged as bytes against the reference subset (dedicated judge: counts only in the message)."""
    from csep.core.catalogs import CSEPCatalog
    n, order = case['n'], case['order']
    events = large_events(n, order)
    assert n % 7919 != 0 and len({e[1] for e in events}) == n
    base = CSEPCatalog(data=list(events))
    arr = base.catalog.copy()
    sz = arr.dtype.itemsize
    raw = arr.tobytes()
    for stmts in large_statements(n):
        for in_place in (False, True):
            keep = ref_filter(events, stmts)
            cat = CSEPCatalog(data=arr.copy())
            ctx.calls += 1
            form = 'str' if len(stmts) == 1 else 'list'
            site = site_of(form)
            cls = ('datetime' if any(x.startswith('datetime') for x in stmts) else 'list' if form == 'list' else 'op:' + stmts[0].split(' ')[1]) + ',many-events'
            try:
                res = cat.filter(stmts[0] if form == 'str' else list(stmts), in_place=in_place)
            except Exception as e:
                ctx.fail(f'{site}|{type(e).__name__}|{cls}', f'{type(e).__name__}: {e} n={n} order={order} statements={stmts}', dict(case))
                continue
            ctx.evals += 1
            ctx.states += 1
            ctx.nontrivial += 1 if 0 < len(keep) < n else 0
            ob = res.catalog.tobytes()
            ctx.h.update(hashlib.sha1(ob).digest())
            exp = b''.join(raw[i * sz:(i + 1) * sz] for i in keep)
            if ob != exp or res.get_number_of_events() != len(keep):
                got = {ob[k * sz:(k + 1) * sz] for k in range(len(ob) // sz)}
                want = {raw[i * sz:(i + 1) * sz] for i in keep}
                kind = 'order-changed' if got == want and len(ob) == len(exp) else 'wrong-events'
                ctx.fail(f'{site}|{kind}|{cls}', f'{n} events in {order} time order, statements {stmts} in_place={in_place}: kept '
                         f'{len(ob) // sz} events, reference keeps {len(keep)}; {len(want - got)} missing, {len(got - want)} extra', dict(case))
            if not in_place and cat.catalog.tobytes() != raw:
                ctx.fail('CSEPCatalog.filter|source-mutated|in_place=False', f'n={n} order={order} statements={stmts}', dict(case))
    return dict(case)


SPELL_EVENTS = [('s0', 1270000000000 - 1, 35.0, -120.0, 5e-06, 5.0), ('s1', 1270000000000, -35.0, 120.0, 1e-05, 0.5),
                ('s2', 1270000000000 + 1, 3.5, -12.0, 2e-05, 50.0), ('s3', 1000, 0.0, 0.0, 1.0, 5.5), ('s4', 2 * 10 ** 12, 89.0, 179.0, 10.0, 9.0)]
SPELLINGS = {'origin_time': ['1.27e12', '1.27e+12', '1270000000000.0', '1.27E12', '+1270000000000', '1e3', '2e12'],
             'depth': ['1e-05', '1E-5', '0.00001', '1.0e-05', '2e-05', '5e-06', '.00001', '1e1', '1e0'],
             'magnitude': ['5e0', '.5e1', '5.', '+5.0', '5e-1', '0.5', '5e1', '50'],
             'latitude': ['-3.5e1', '-35', '3.5e0', '+35.0', '35.', '0e0', '-0.0'],
             'longitude': ['-1.2e2', '1.2e+2', '-12e0', '-120', '120.']}


def run_spell(ctx, case):
    """Threshold spellings: every way float()/int() reads the same number (exponent notation, explicit sign, bare point)."""
    for attr in case['attrs']:
        for text in SPELLINGS[attr]:
            for op in OPS:
                stmt = f'{attr} {op} {text}'
                for variant in ('str', 'list'):
                    keep = run_scenario(ctx, SPELL_EVENTS, [stmt], variant, False)
                    note_case(ctx, get_src(SPELL_EVENTS), [stmt], keep)
    return dict(case)


def run_case(case):
    ctx = Ctx()
    k = case['kind']
    if k == 'large':
        sample = run_large(ctx, case)
    elif k == 'spell':
        sample = run_spell(ctx, case)
    elif k == 'single':
        sample = run_single(ctx, case)
    elif k == 'lists':
        sample = run_lists(ctx, case)
    elif k == 'bfs':
        sample = run_bfs(ctx, case)
    elif k == 'spatial':
        sample = run_spatial(ctx, case)
    elif k == 'load':
        sample = run_load(ctx, case)
    elif k == 'instants':
        sample = run_instants(ctx, case)
    elif k == 'scenario':
        ev = [tuple(e) for e in case['events']]
        keep = run_scenario(ctx, ev, case['stmts'], case['variant'], case['in_place'])
        note_case(ctx, get_src(ev), case['stmts'], keep)
        sample = case
    elif k == 'spatial1':
        _use(case.get('east', False))
        run_spatial_one(ctx, [tuple(e) for e in case['events']], case['bits'], case['maskbits'], case['mode'],
                        case['in_place'])
        _use(False)
        ctx.states += 1
        sample = case
    elif k == 'load1':
        run_load_one(ctx, [tuple(e) for e in case['events']], case['stmts'], case['bits'], case.get('as_str', False))
        ctx.states += 1
        sample = case
    else:
        raise ValueError(k)
    return ctx.result(sample)


def finish(agg, tier):
    ev = {}
    fails = []
    reach = agg['sets'].get('bfs_reachable_from_full', set())
    want = {tuple(s) for s in bfs_start_states()}
    if reach and reach != want:
        fails.append(Fail('CSEPCatalog.filter[str]|reachable-set-differs|state-machine',
                          f'implementation reaches {len(reach)} index sets from the full catalog, the start states '
                          f'enumerated from the reference are {len(want)}', dict(kind='bfs', start=FULL, in_place=True)))
    ev['bounds'] = dict(event_alphabet=len(EVENTS), statements=len(STATEMENTS), sub_alphabet=len(SUB20),
                        max_catalog_length=3 if tier == 'quick' else 4,
                        list_lengths=[1, 2] if tier == 'quick' else [1, 2, 3],
                        bfs_start_states=len(want), bfs_max_depth=max(agg['sets'].get('bfs_depths', {0})),
                        spatial_regions=511, spatial_masks=512, probes=len(PROBE_EVENTS))
    ev['bfs'] = dict(states=agg['counters'].get('bfs_states', 0), transitions=agg['counters'].get('bfs_transitions', 0),
                     op_executions=agg['counters'].get('bfs_op_executions', 0), runs=agg['counters'].get('bfs_runs', 0),
                     reachable_from_full=len(reach),
                     fixpoint_reached=not any(f['signature'].startswith('mc.bfs.explore|no-fixpoint')
                                              for f in agg['failures']))
    ev['ambiguous_skipped'] = agg['counters'].get('load_roundtrip_not_exact_undecided', 0)
    return dict(evidence=ev, failures=fails)
