"""C10 Catalog-based consistency tests compute the documented statistics."""
import contextlib
import hashlib
import io
import itertools
import math
import os

import numpy

from mc import env, fixtures, space
from mc.engine import Fail, result

ID = 'C10'
RULE = ('region 3 cells x 2 magnitude bins, event types = (cell, bin) pairs; synthetic catalogs = all multisets of size 0..2 '
        'over the 6 types (28); forecasts = ALL sequences of J=1..2 such catalogs (812; thorough J<=3 on a fixed-stride '
        'third + all 21952 with observations of size<=1); observed catalogs = all multisets of size 0..2 (thorough 0..3); '
        'every pair goes through number, spatial, magnitude, pseudo-likelihood tests (in-memory forecasts; J<=2 forecasts '
        'also streamed from a generated file with store on/off against 3 observations); resampled-M and MLL under a '
        'scripted numpy.random.choice: EVERY resample over the two bins for N_obs<=2, J<=2. A pair is non-trivial iff the '
        'forecast has an empty catalog, or the observation is empty, or hits a never-sampled cell, or holds two events in '
        'one cell; distinct by construction.')
ASSUMPTIONS = ['statistic definitions from docs/getting_started/theory.rst (catalog-based tests): natural log for the spatial and '
               'pseudo-likelihood statistics, log10 in the magnitude statistics as the library and its unit tests use',
               'the sign convention of the MLL statistic is NOT judged: theory.rst writes -2 log(...), the MLL_score docstring and '
               'the library\'s own unit tests +2 log(...); the reference follows the latter',
               'forecasts whose synthetic catalogs are all empty are judged for the number test only (every other statistic '
               'is undefined: union histogram and rates are zero)']

NC, NM = 3, 2
TYPES = list(range(NC * NM))         # type = cell*2 + bin


def synth_catalogs():
    return [list(m) for m in space.multisets(TYPES, 0, 2)]


def cases(tier, seed):
    cats = synth_catalogs()
    fcs = [[c] for c in cats] + [[a, b] for a in cats for b in cats]
    obs_max = 2 if tier == 'quick' else 3
    for chunk in space.chunks(fcs, 6):
        yield dict(kind='mem', forecasts=chunk, obs_max=obs_max)
    for chunk in space.chunks(fcs, 20):
        yield dict(kind='file', forecasts=chunk)
    for chunk in space.chunks(fcs, 12):
        yield dict(kind='resample', forecasts=chunk)
    # magnitude bins 0.01 wide (bin centres with three decimals) and half a unit wide, for the resampling tests and the M-test
    for mg in ([4.03, 0.01], [-0.5, 0.5]):
        for chunk in space.chunks(fcs[::3], 12):
            yield dict(kind='resample', forecasts=chunk, maggrid=mg)
        for chunk in space.chunks(fcs[::3], 40):
            yield dict(kind='mem', forecasts=chunk, obs_max=2, maggrid=mg)
    for chunk in space.chunks(fcs, 40):
        yield dict(kind='history', forecasts=chunk)
    # MLL_magnitude_test(full_calculation=True): resampling the pooled RAW magnitudes - every index script for N_obs <= 2, J <= 2,
    # with last-bin events just above the last edge and 3.3 bin widths above it (the last bin is open at the top)
    for far in (False, True):
        for chunk in space.chunks(fcs[::7] if tier == 'quick' else fcs, 2 if tier == 'quick' else 8):
            yield dict(kind='full', forecasts=chunk, far=far)
        if tier == 'thorough':
            yield dict(kind='full', forecasts=fcs[1::6], far=far, maggrid=[4.03, 0.01])
    # structured LARGE forecasts and observations (size-dependent paths): many synthetic catalogs, many events
    for J in (10, 11, 12, 40, 101, 150):
        for pattern in (0, 1):
            yield dict(kind='large', J=J, pattern=pattern)
    # ONE synthetic event in a cell (mean rate 1/J), another cell never sampled: every J in 2..170 (1/J * J is not always 1.0 in floats)
    for chunk in space.chunks(list(range(2, 171)), 12):
        yield dict(kind='once', Js=chunk)
    # calibration test: every sub-sequence (length 1..4) of a fixed family of six evaluation results (one of them not-valid)
    yield dict(kind='calibration')
    if tier == 'thorough':
        f3 = [[a, b, c] for a in cats for b in cats for c in cats]
        for chunk in space.chunks(f3[::3], 8):
            yield dict(kind='mem', forecasts=chunk, obs_max=2)
        for chunk in space.chunks(f3, 60):
            yield dict(kind='mem', forecasts=chunk, obs_max=1)
    else:
        # seed-selected extra complete block: all J=3 forecasts whose first catalog is one fixed catalog
        first = cats[seed % len(cats)]
        f3 = [[first, b, c] for b in cats for c in cats]
        for chunk in space.chunks(f3, 40):
            yield dict(kind='mem', forecasts=chunk, obs_max=1)


# ----------------------------------------------------------------------------- reference model (theory.rst)
def counts_of(types):
    g = [[0] * NM for _ in range(NC)]
    for t in types:
        g[t // NM][t % NM] += 1
    return g


def ecdf_pair(dist, v):
    n = len(dist)
    return (sum(1 for x in dist if x >= v) / n, sum(1 for x in dist if x <= v) / n)


class Ref:
    def __init__(self, forecast):
        self.J = len(forecast)
        self.G = [counts_of(c) for c in forecast]
        self.N = [len(c) for c in forecast]
        self.rates = [[sum(g[c][k] for g in self.G) / self.J for k in range(NM)] for c in range(NC)]
        self.lam_s = [sum(self.rates[c]) for c in range(NC)]
        self.nbar = sum(self.lam_s)
        self.union_m = [sum(self.rates[c][k] for c in range(NC)) for k in range(NM)]        # mean rates per bin
        self.union_counts = [sum(g[c][k] for g in self.G for c in range(NC)) for k in range(NM)]

    def number(self, obs):
        return dict(status='normal', stat=len(obs), dist=list(self.N), q=ecdf_pair(self.N, len(obs)))

    def _spatial_counts(self, types):
        s = [0] * NC
        for t in types:
            s[t // NM] += 1
        return s

    def pseudo(self, obs):
        if len(obs) == 0:
            return None
        dist = []
        for g, n in zip(self.G, self.N):
            sc = [sum(g[c]) for c in range(NC)]
            dist.append(math.fsum(sc[c] * math.log(self.lam_s[c]) for c in range(NC) if sc[c] > 0) - self.nbar)
        so = self._spatial_counts(obs)
        status = 'normal'
        if any(so[c] > 0 and self.lam_s[c] == 0 for c in range(NC)):
            so = [so[c] if self.lam_s[c] > 0 else 0 for c in range(NC)]
            status = 'undersampled'
            if sum(so) == 0:
                return None
        stat = math.fsum(so[c] * math.log(self.lam_s[c]) for c in range(NC) if so[c] > 0) - self.nbar
        return dict(status=status, stat=stat, dist=dist, q=ecdf_pair(dist, stat))

    def spatial(self, obs):
        if len(obs) == 0 or self.nbar == 0:
            return dict(status='not-valid')
        tot = sum(self.lam_s)
        ls = [x / tot for x in self.lam_s]
        dist = []
        for g, n in zip(self.G, self.N):
            if n == 0:
                continue
            sc = [sum(g[c]) for c in range(NC)]
            dist.append(math.fsum(sc[c] * math.log(ls[c]) for c in range(NC) if sc[c] > 0) / n)
        so = self._spatial_counts(obs)
        status = 'normal'
        if any(so[c] > 0 and ls[c] == 0 for c in range(NC)):
            so = [so[c] if ls[c] > 0 else 0 for c in range(NC)]
            status = 'undersampled'
            if sum(so) == 0:
                return dict(status='not-valid')
        stat = math.fsum(so[c] * math.log(ls[c]) for c in range(NC) if so[c] > 0) / sum(so)
        return dict(status=status, stat=stat, dist=dist, q=ecdf_pair(dist, stat))

    def _mag_hist(self, types):
        h = [0] * NM
        for t in types:
            h[t % NM] += 1
        return h

    def _dstat(self, hist, scale_hist, n_obs):
        nu = sum(self.union_m)
        return math.fsum((math.log10(n_obs / nu * self.union_m[k] + 1) - math.log10(scale_hist[k] + 1)) ** 2 for k in range(NM))

    def magnitude(self, obs):
        if len(obs) == 0:
            return dict(status='not-valid', stat=None)
        n_obs = len(obs)
        dist = []
        for g, n in zip(self.G, self.N):
            if n == 0:
                continue
            h = [sum(g[c][k] for c in range(NC)) for k in range(NM)]
            dist.append(self._dstat(None, [n_obs / n * x for x in h], n_obs))
        stat = self._dstat(None, self._mag_hist(obs), n_obs)
        return dict(status='normal', stat=stat, dist=dist, q=ecdf_pair(dist, stat))

    def resampled(self, obs, resamples):
        """resamples: list (one per synthetic catalog) of bin-index lists of length N_obs"""
        if len(obs) == 0:
            return dict(status='not-valid', stat=None)
        n_obs = len(obs)
        dist = []
        for rs_ in resamples:
            h = [rs_.count(k) for k in range(NM)]
            dist.append(self._dstat(None, h, n_obs))
        stat = self._dstat(None, self._mag_hist(obs), n_obs)
        return dict(status='normal', stat=stat, dist=dist, q=ecdf_pair(dist, stat))

    @staticmethod
    def _logmult(x):
        size = sum(x)
        return math.lgamma(size + 1) + math.fsum(v * math.log(v / size) - math.lgamma(v + 1) for v in x)

    def _mll(self, counts):
        nu = sum(self.union_counts)
        nj = sum(counts)
        u = [x + nu / nj for x in self.union_counts]
        c = [x + 1 for x in counts]
        m = [a + b for a, b in zip(u, c)]
        return 2 * (self._logmult(m) - self._logmult(u) - self._logmult(c))

    def mll(self, obs, resamples):
        if len(obs) == 0:
            return dict(status='not-valid', stat=None)
        dist = [self._mll([rs_.count(k) for k in range(NM)]) for rs_ in resamples]
        stat = self._mll(self._mag_hist(obs))
        return dict(status='normal', stat=stat, dist=dist, q=ecdf_pair(dist, stat))


# ----------------------------------------------------------------------------- real objects
_FAR = [False]         # True: events of the LAST magnitude bin (open at the top) lie 3.3 bin widths above its edge
_MAG = [None]          # None: unit-wide magnitude bins from 5.0; else (first edge, width) of the current case


def _half():
    return 0.5 if _MAG[0] is None else _MAG[0][1] / 2


def setup():
    reg, origins, mags = fixtures.grid_setup(NC, NM)
    if _MAG[0] is not None:
        m0, w = _MAG[0]
        mags = [round(m0 + w * k, 10) for k in range(NM)]
        reg = fixtures.cartesian_region(origins, 0.1, magnitudes=mags)
    return reg, origins, mags


def events(types, origins, mags, base=0):
    evs = []
    for i, t in enumerate(types):
        c, k = t // NM, t % NM
        far = 6.6 * _half() if (_FAR[0] and k == NM - 1) else 0.0
        evs.append((f'e{base + i}', 1262304000000 + 1000 * (base + i), origins[c][1] + 0.05, origins[c][0] + 0.05, 10.0, mags[k] + _half() + far))
    return evs


def mem_forecast(forecast, reg, origins, mags):
    from csep.core.forecasts import CatalogForecast
    cats = [fixtures.catalog(events(c, origins, mags, 10 * j), region=reg, catalog_id=j) for j, c in enumerate(forecast)]
    return CatalogForecast(catalogs=cats, n_cat=len(cats), region=reg, name='fc')


def classify(forecast, obs, ref):
    if len(obs) == 0:
        return 'empty-observation'
    if any(ref.lam_s[t // NM] == 0 for t in obs):
        return 'event-in-never-sampled-cell'
    if any(len(c) == 0 for c in forecast):
        return 'forecast-with-empty-catalog'
    return 'general'


def close(a, b):
    return fixtures.close(fixtures.norm(a), fixtures.norm(b), rtol=1e-9, atol=1e-11)


def compare(site, res, want, cls, rep, failures, hsh):
    """res: library result (or None); want: reference dict (or None)."""
    if want is None:
        if res is not None:
            failures.append(Fail(f'{site}|result-where-none-is-defined|{cls}', f'returned {type(res).__name__} status={res.status} stat={res.observed_statistic}', rep))
        return
    if res is None:
        failures.append(Fail(f'{site}|no-result|{cls}', f'returned None, expected status {want["status"]}', rep))
        return
    hsh.update(repr((site, res.status, fixtures.norm(res.observed_statistic), fixtures.norm(res.quantile))).encode())
    if want['status'] == 'not-valid':
        q = res.quantile
        numeric_q = q is not None and all(isinstance(x, (int, float, numpy.floating, numpy.integer)) and 0 <= x <= 1 for x in (q if isinstance(q, (tuple, list)) else [q]))
        if res.status != 'not-valid' or numeric_q:
            failures.append(Fail(f'{site}|undefined-statistic-not-signalled|{cls}',
                                 f'status={res.status!r} quantile={res.quantile} stat={res.observed_statistic}; expected status not-valid without a numeric quantile', rep))
        if 'stat' in want and want['stat'] is None and res.observed_statistic is not None:
            failures.append(Fail(f'{site}|undefined-statistic-not-signalled|{cls}', f'observed_statistic={res.observed_statistic} expected None', rep))
        return
    if res.status != want['status']:
        failures.append(Fail(f'{site}|status|{cls}', f'status {res.status!r}, expected {want["status"]!r} (stat={res.observed_statistic})', rep))
        return
    st = res.observed_statistic
    if st is None or (isinstance(st, (float, numpy.floating)) and not math.isfinite(float(st))) and want['status'] == 'normal':
        failures.append(Fail(f'{site}|non-finite-statistic-with-status-normal|{cls}', f'stat={st}', rep))
        return
    if not close(st, want['stat']):
        failures.append(Fail(f'{site}|observed-statistic|{cls}', f'observed_statistic={st!r}, documented definition gives {want["stat"]!r}', rep))
        return
    td = [float(x) for x in res.test_distribution]
    if not close(td, want['dist']):
        failures.append(Fail(f'{site}|test-distribution|{cls}', f'test_distribution={td}, documented definition gives {want["dist"]}', rep))
        return
    # the quantile is the empirical probability of the statistics as computed: statistics that are mathematically tied may
    # differ in the last bit between the library's summation order and the reference's, so either set of floats is accepted
    q_own = ecdf_pair(td, float(st)) if td else None
    if not (close(list(res.quantile), list(want['q'])) or (q_own is not None and close(list(res.quantile), list(q_own)))):
        failures.append(Fail(f'{site}|quantile|{cls}', f'quantile={res.quantile}, empirical probabilities give {want["q"]} (from the reference statistics) / {q_own} (from the reported statistics)', rep))


def run_tests(fc, forecast, obs_types, reg, origins, mags, failures, hsh, which, tag, default_verbosity=False):
    from csep.core import catalog_evaluations as ce
    ref = Ref(forecast)
    obs = fixtures.catalog(events(obs_types, origins, mags, 500), region=reg, name='obs')
    cls = classify(forecast, obs_types, ref)
    rep = dict(kind='single', forecast=forecast, obs=list(obs_types), storage=tag, maggrid=(list(_MAG[0]) if _MAG[0] else None))
    all_empty = all(len(c) == 0 for c in forecast)
    evals = 0
    table = [('number_test', ce.number_test, ref.number)]
    if not all_empty:
        table += [('spatial_test', ce.spatial_test, ref.spatial), ('magnitude_test', ce.magnitude_test, ref.magnitude),
                  ('pseudolikelihood_test', ce.pseudolikelihood_test, ref.pseudo)]
    for name, fn, rf in table:
        if which and name not in which:
            continue
        site = f'catalog_evaluations.{name}' + ('' if tag == 'mem' else f'[{tag}]')
        try:
            if default_verbosity:
                # the call as documented, without the verbose keyword (progress messages go to a discarded stream)
                site += '[default-verbosity]'
                with contextlib.redirect_stdout(io.StringIO()):
                    res = fn(fc, obs)
            else:
                res = fn(fc, obs, verbose=False)
        except Exception as e:
            failures.append(Fail(f'{site}|{type(e).__name__}|{cls}', f'{type(e).__name__}: {e} forecast={forecast} obs={obs_types}', rep))
            continue
        evals += 1
        compare(site, res, rf(obs_types), cls, rep, failures, hsh)
    return evals, cls


def run_subthreshold(fc, forecast, obs_types, reg, origins, mags, failures, hsh):
    """Observed catalog that was not pre-filtered: one extra event below the lowest magnitude edge. The magnitude statistic
    is defined on the histograms over the magnitude range, so it must be that of the in-range events."""
    from csep.core import catalog_evaluations as ce
    evs = events(obs_types, origins, mags, 500) + [('sub', 1262304000000 + 999000, origins[0][1] + 0.05, origins[0][0] + 0.05, 10.0, mags[0] - 1.0)]
    obs = fixtures.catalog(evs, region=reg, name='obs')
    rep = dict(kind='subthreshold', forecast=forecast, obs=list(obs_types))
    cls = 'observed-event-below-lowest-magnitude-edge'
    if len(obs_types) == 0:
        return 0      # every in-range histogram is empty although the catalog is not: not defined by the documentation
    try:
        res = ce.magnitude_test(fc, obs, verbose=False)
    except Exception as e:
        failures.append(Fail(f'catalog_evaluations.magnitude_test|{type(e).__name__}|{cls}', f'{type(e).__name__}: {e} forecast={forecast} obs={obs_types}+sub-threshold', rep))
        return 1
    compare('catalog_evaluations.magnitude_test', res, Ref(forecast).magnitude(obs_types), cls, rep, failures, hsh)
    return 1


def run_resample(forecast, obs_types, reg, origins, mags, failures, hsh):
    from csep.core import catalog_evaluations as ce
    ref = Ref(forecast)
    J = len(forecast)
    n = len(obs_types)
    cls = classify(forecast, obs_types, ref)
    evals = 0
    scripts = [()] if n == 0 else list(itertools.product(range(NM), repeat=J * n))
    # bins with zero probability cannot be drawn by numpy.random.choice: restrict answers to positive-probability bins
    pos = [k for k in range(NM) if ref.union_counts[k] > 0]
    scripts = [s for s in scripts if all(k in pos for k in s)]
    for s in scripts:
        resamples = [list(s[j * n:(j + 1) * n]) for j in range(J)]
        for name, fn, rf in (('resampled_magnitude_test', ce.resampled_magnitude_test, ref.resampled), ('MLL_magnitude_test', ce.MLL_magnitude_test, ref.mll)):
            fc = mem_forecast(forecast, reg, origins, mags)
            obs = fixtures.catalog(events(obs_types, origins, mags, 500), region=reg, name='obs')
            site = f'catalog_evaluations.{name}'
            rep = dict(kind='resample1', forecast=forecast, obs=list(obs_types), script=list(s), maggrid=(list(_MAG[0]) if _MAG[0] else None))
            sc = env.Script(choices=list(s))
            try:
                with env.scripted_random(sc):
                    res = fn(fc, obs, seed=None)
            except env.Horizon:
                failures.append(Fail(f'{site}|draws-more-than-N_obs-per-catalog|{cls}', f'forecast={forecast} obs={obs_types}', rep))
                continue
            except Exception as e:
                failures.append(Fail(f'{site}|{type(e).__name__}|{cls}', f'{type(e).__name__}: {e} forecast={forecast} obs={obs_types}', rep))
                continue
            evals += 1
            if n > 0:
                calls = [l for l in sc.log if l[0] == 'choice']
                nu = sum(ref.union_counts)
                okp = len(calls) == J and all(c[1][2] in (n, (n,)) and fixtures.close(list(c[1][1]), [x / nu for x in ref.union_counts], 1e-12, 1e-15)
                                              and fixtures.close(list(c[1][0]), [m_ + _half() for m_ in mags], 1e-12, 1e-15) for c in calls)
                if not okp:
                    failures.append(Fail(f'{site}|resampling-not-N_obs-draws-from-union-histogram|{cls}',
                                         f'choice calls {[(c[1][0], c[1][1], c[1][2]) for c in calls]} expected {J} calls of size {n} with p={[x / nu for x in ref.union_counts]}', rep))
                    continue
            compare(site, res, rf(obs_types, resamples), cls, rep, failures, hsh)
    return evals


def run_full(forecast, obs_types, reg, origins, mags, failures, hsh, only=None):
    """MLL_magnitude_test(full_calculation=True) under a scripted numpy.random.choice: the documented resampling draws N_obs
    magnitudes from the pooled synthetic events; EVERY index script is run and the result compared with the reference."""
    from csep.core import catalog_evaluations as ce
    ref = Ref(forecast)
    J, n = len(forecast), len(obs_types)
    pooled = [t % NM for c in forecast for t in c]
    nu = len(pooled)
    cls = classify(forecast, obs_types, ref) + (',last-bin-events-far-above-edge' if _FAR[0] else '')
    evals = 0
    if nu == 0 or n == 0 or nu ** (J * n) > 700:
        return 0
    for s in ([tuple(only)] if only is not None else itertools.product(range(nu), repeat=J * n)):
        resamples = [[pooled[i] for i in s[j * n:(j + 1) * n]] for j in range(J)]
        fc = mem_forecast(forecast, reg, origins, mags)
        obs = fixtures.catalog(events(obs_types, origins, mags, 500), region=reg, name='obs')
        site = 'catalog_evaluations.MLL_magnitude_test[full_calculation]'
        rep = dict(kind='full1', forecast=forecast, obs=list(obs_types), script=list(s), far=_FAR[0], maggrid=(list(_MAG[0]) if _MAG[0] else None))
        sc = env.Script(choices=list(s))
        try:
            with env.scripted_random(sc):
                res = ce.MLL_magnitude_test(fc, obs, seed=None, full_calculation=True)
        except env.Horizon:
            failures.append(Fail(f'{site}|draws-more-than-N_obs-per-catalog|{cls}', f'forecast={forecast} obs={obs_types}', rep))
            continue
        except Exception as e:
            failures.append(Fail(f'{site}|{type(e).__name__}|{cls}', f'{type(e).__name__}: {e} forecast={forecast} obs={obs_types}', rep))
            continue
        evals += 1
        calls = [l for l in sc.log if l[0] == 'choice']
        want_pool = sorted(e[5] for c in forecast for e in events(c, origins, mags))
        okp = len(calls) == J and all(c[1][2] in (n, (n,)) and c[1][1] is None and sorted(c[1][0]) == want_pool for c in calls)
        if not okp:
            failures.append(Fail(f'{site}|resampling-not-N_obs-draws-from-pooled-magnitudes|{cls}',
                                 f'choice calls {[(c[1][0], c[1][1], c[1][2]) for c in calls]} expected {J} calls of size {n} from {want_pool}', rep))
            continue
        # the library may pool the catalogs in any order: translate the script through the pool it actually used
        lib_pool = calls[0][1][0]
        edges = list(mags)
        binof = lambda m: max(k for k in range(NM) if m >= edges[k] - 1e-9)
        resamples = [[binof(lib_pool[i]) for i in s[j * n:(j + 1) * n]] for j in range(J)]
        compare(site, res, ref.mll(obs_types, resamples), cls, rep, failures, hsh)
    return evals


def run_case(case):
    _MAG[0] = tuple(case['maggrid']) if case.get('maggrid') else None
    _FAR[0] = bool(case.get('far'))
    try:
        return _run_case(case)
    finally:
        _MAG[0] = None
        _FAR[0] = False


def _run_case(case):
    failures = []
    hsh = hashlib.sha1()
    numpy.random.seed(11223)
    reg, origins, mags = setup()
    evals = states = nontriv = 0
    k = case['kind']
    if k == 'mem':
        obs_list = [list(m) for m in space.multisets(TYPES, 0, case['obs_max'])]
        for forecast in case['forecasts']:
            fc = mem_forecast(forecast, reg, origins, mags)
            for obs_types in obs_list:
                e, cls = run_tests(fc, forecast, obs_types, reg, origins, mags, failures, hsh, None, 'mem')
                evals += e
                states += 1
                if len(obs_types) <= 1 and not all(len(c) == 0 for c in forecast):
                    evals += run_subthreshold(fc, forecast, obs_types, reg, origins, mags, failures, hsh)
                if cls != 'general' or len(set(t // NM for t in obs_types)) < len(obs_types):
                    nontriv += 1
            if len(failures) > 80:
                break
    elif k == 'large':
        J, pat = case['J'], case['pattern']
        if pat == 0:
            forecast = [[(j * 3 + i) % 6 for i in range(j % 5)] for j in range(J)]                   # sizes 0..4, all cells sampled
        else:
            forecast = [[(0 if (i + j) % 2 else 3) for i in range((j * 7) % 12)] for j in range(J)]     # sizes 0..11, only two event types
        fc = mem_forecast(forecast, reg, origins, mags)
        for obs_types in ([], [2], [0, 1, 2, 3, 4, 5, 0], [3] * 9 + [0] * 6, [1, 5] * 10):
            for dv in (False, True):
                e, cls = run_tests(fc, forecast, obs_types, reg, origins, mags, failures, hsh, None, 'mem', default_verbosity=dv)
                evals += e
            states += 1
            nontriv += 1
        for f in failures:
            f['case'] = dict(case)
    elif k == 'once':
        for J in case['Js']:
            # types: t = cell * NM + bin; cell 0 is hit once, cell 1 by all other catalogs, cell 2 never
            forecast = [[0]] + [[1 * NM]] * (J - 1)
            fc = mem_forecast(forecast, reg, origins, mags)
            for obs_types in ([0, 2 * NM], [0, 0, 2 * NM + 1]):
                e, cls = run_tests(fc, forecast, obs_types, reg, origins, mags, failures, hsh, {'spatial_test', 'pseudolikelihood_test'}, 'mem')
                evals += e
                states += 1
                nontriv += 1
        for f in failures:
            f['case'] = dict(case)
    elif k == 'history':
        # multi-step histories on one forecast object: N-test, then the stored synthetic catalogs are thinned in place
        # ('magnitude >= 6.0' keeps the events of the upper magnitude bin), then the N-test again
        from csep.core import catalog_evaluations as ce
        for forecast in case['forecasts']:
            thinned = [[t for t in c if t % NM == 1] for c in forecast]
            for obs_types in ([], [1], [0, 1]):
                fc = mem_forecast(forecast, reg, origins, mags)
                rep = dict(kind='history', forecasts=[forecast])
                states += 1
                nontriv += 1
                for step, cur in (('first use', forecast), ('after in-place thinning of the stored catalogs', thinned)):
                    if step != 'first use':
                        for c in fc.catalogs:
                            c.filter('magnitude >= 6.0')
                    obs = fixtures.catalog(events(obs_types, origins, mags, 500), region=reg, name='obs')
                    try:
                        res = ce.number_test(fc, obs, verbose=False)
                    except Exception as e:
                        failures.append(Fail(f'catalog_evaluations.number_test|{type(e).__name__}|history', f'{type(e).__name__}: {e} forecast={forecast} ({step})', rep))
                        break
                    evals += 1
                    before = len(failures)
                    compare('catalog_evaluations.number_test', res, Ref(cur).number(obs_types), 'history:' + ('first-use' if step == 'first use' else 'after-in-place-thinning'), rep, failures, hsh)
                    if len(failures) > before:
                        failures[-1]['detail'] += f' | forecast={forecast} obs={obs_types} step: {step}; current sizes {[len(c) for c in cur]}'
                        break
    elif k == 'file':
        import csep
        wd = fixtures.workdir()
        obs_list = [[], [0], [5], [0, 1]]
        for fi, forecast in enumerate(case['forecasts']):
            path = os.path.join(wd, f'c10_{fi}.csv')
            fixtures.write_forecast_csv(path, [events(c, origins, mags, 10 * j) for j, c in enumerate(forecast)])
            for store in (True, False):
                fc = csep.load_catalog_forecast(path, region=reg, store=store, name='fc')
                for obs_types in obs_list:
                    e, cls = run_tests(fc, forecast, obs_types, reg, origins, mags, failures, hsh, None, f'file,store={store}')
                    evals += e
                    states += 1
                    nontriv += 1
            os.remove(path)
            # the same forecast written with an extra event below the minimum magnitude in every non-empty catalog and loaded
            # with a magnitude filter: every pass (each test makes one or two) must see the filtered catalogs
            extra = lambda j: [(f'x{j}', 1262304000000 + 777000 + j, origins[0][1] + 0.05, origins[0][0] + 0.05, 10.0, mags[0] - 1.0)]
            fixtures.write_forecast_csv(path, [events(c, origins, mags, 10 * j) + (extra(j) if c else []) for j, c in enumerate(forecast)])
            for store in (True, False):
                fc = csep.load_catalog_forecast(path, region=reg, store=store, name='fc', filters=[f'magnitude >= {mags[0]!r}'], apply_filters=True)
                for obs_types in obs_list[:3]:
                    e, cls = run_tests(fc, forecast, obs_types, reg, origins, mags, failures, hsh, None, f'file,filtered,store={store}')
                    evals += e
                    states += 1
                    nontriv += 1
            os.remove(path)
    elif k == 'resample':
        obs_list = [[], [0], [1], [0, 1], [0, 0], [3, 5]]
        for forecast in case['forecasts']:
            if all(len(c) == 0 for c in forecast):
                continue
            for obs_types in obs_list:
                evals += run_resample(forecast, obs_types, reg, origins, mags, failures, hsh)
                states += 1
                nontriv += 1
    elif k == 'calibration':
        from csep.core import catalog_evaluations as ce
        family = [([[0], [0, 1], []], [0]), ([[2, 3], [4]], [2, 2]), ([[5], [5, 5], [1]], [5]), ([[0, 0], [1, 1]], []),
                  ([[3], [], [3, 4]], [3, 4]), ([[1, 2], [2]], [1])]
        made = []
        for fc_types, ob in family:
            fc = mem_forecast(fc_types, reg, origins, mags)
            obs = fixtures.catalog(events(ob, origins, mags, 500), region=reg, name='obs')
            made.append((ce.magnitude_test(fc, obs, verbose=False), ce.number_test(fc, obs, verbose=False)))
        for n in range(1, 5):
            for idxs in itertools.permutations(range(len(family)), n) if n <= 2 else itertools.combinations(range(len(family)), n):
                for which in (0, 1):
                    for d1 in (False, True):
                        results = [made[i][which] for i in idxs]
                        valid = [r for r in results if r.status != 'not-valid']
                        rep = dict(kind='calibration')
                        states += 1
                        nontriv += (len(valid) < len(results))
                        if not valid:
                            continue
                        try:
                            res = ce.calibration_test(results, delta_1=d1)
                        except Exception as e:
                            failures.append(Fail(f'catalog_evaluations.calibration_test|{type(e).__name__}|any', f'{type(e).__name__}: {e} results={idxs} which={which}', rep))
                            continue
                        evals += 1
                        q = sorted(float(r.quantile[0 if d1 else 1]) for r in valid)
                        m = len(q)
                        ks = max(max((i + 1) / m - v, v - i / m) for i, v in enumerate(q))
                        got_q = sorted(float(x) for x in res.test_distribution)
                        hsh.update(repr((got_q, float(res.observed_statistic))).encode())
                        if got_q != q:
                            failures.append(Fail('catalog_evaluations.calibration_test|quantiles-used-differ-from-valid-results|any',
                                                 f'test_distribution {got_q} but the valid results carry {q} (delta_1={d1})', rep))
                        elif abs(float(res.observed_statistic) - ks) > 1e-12:
                            failures.append(Fail('catalog_evaluations.calibration_test|ks-statistic-differs|any',
                                                 f'observed_statistic {res.observed_statistic} vs sup-distance to uniform {ks} for quantiles {q}', rep))
    elif k == 'single':
        forecast, obs_types = case['forecast'], case['obs']
        tag = case.get('storage', 'mem')
        if tag == 'mem':
            fc = mem_forecast(forecast, reg, origins, mags)
        else:
            import csep
            path = os.path.join(fixtures.workdir(), 'c10_single.csv')
            fixtures.write_forecast_csv(path, [events(c, origins, mags, 10 * j) for j, c in enumerate(forecast)])
            fc = csep.load_catalog_forecast(path, region=reg, store=('True' in tag), name='fc')
        e, _ = run_tests(fc, forecast, obs_types, reg, origins, mags, failures, hsh, None, tag)
        evals, states = e, 1
    elif k == 'subthreshold':
        fc = mem_forecast(case['forecast'], reg, origins, mags)
        evals = run_subthreshold(fc, case['forecast'], case['obs'], reg, origins, mags, failures, hsh)
        states = 1
    elif k == 'full':
        for forecast in case['forecasts']:
            for obs_types in ([0], [1], [0, 1], [5, 5], [3, 1]):
                e = run_full(forecast, obs_types, reg, origins, mags, failures, hsh)
                evals += e
                states += 1 if e else 0
                nontriv += 1 if e else 0
    elif k == 'full1':
        evals = run_full(case['forecast'], case['obs'], reg, origins, mags, failures, hsh, only=case['script'])
        states = 1
    elif k == 'resample1':
        sel = tuple(case['script'])
        forecast, obs_types = case['forecast'], case['obs']
        evals = run_resample(forecast, obs_types, reg, origins, mags, failures, hsh)
        failures = [f for f in failures if tuple(f['case'].get('script', ())) == sel] or failures
        states = 1
    seen, uniq = set(), []
    for f in failures:
        if f['signature'] not in seen:
            seen.add(f['signature'])
            uniq.append(f)
    sample = {kk: (vv[:2] if isinstance(vv, list) and kk == 'forecasts' else vv) for kk, vv in case.items()}
    return result(evals=evals, states=states, transitions=evals, nontrivial=nontriv, failures=uniq, digest=hsh.hexdigest(),
                  sample=sample)
