"""Explorer self-test: a planted bug must be reported, the correct toy must not."""
import os
import shutil
import subprocess
import sys

VERIF = os.path.dirname(os.path.dirname(os.path.abspath(__file__)))


def main():
    run = [sys.executable, '-B', '-W', 'ignore', os.path.join(VERIF, 'mc', 'run.py'), 'TOY', '--workers', '2']
    ok = subprocess.run(run, capture_output=True, text=True, env=dict(os.environ, TOY_BUG='0'))
    bad = subprocess.run(run, capture_output=True, text=True, env=dict(os.environ, TOY_BUG='1'))
    for p in (os.path.join(VERIF, 'evidence', 'TOY.json'),):
        if os.path.exists(p):
            os.remove(p)
    shutil.rmtree(os.path.join(VERIF, 'replays', 'TOY'), ignore_errors=True)
    good = ok.returncode == 0 and 'VIOLATION' not in ok.stdout
    caught = bad.returncode == 1 and 'VIOLATION property=TOY' in bad.stdout
    print(f'selftest: correct toy silent={good}; planted bug reported={caught}')
    if not (good and caught):
        print(ok.stdout[-800:], ok.stderr[-800:], bad.stdout[-800:], bad.stderr[-800:])
        return 1
    return 0
