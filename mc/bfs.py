"""Explicit-state breadth-first search over operation histories of a real (non-copyable) object.

A state *is* the history that reaches it: every frontier history is replayed on a fresh object, one more
operation is applied, the object is reduced to a canonical form, and unseen canonical forms are enqueued.
The caller's `step` callback judges every transition (invariant / reference-model comparison).
"""
import collections


def explore(build, ops, apply_op, canon, judge, max_depth, max_states=100000):
    """
    build()                 -> fresh object in its initial state
    ops                     -> list of operation labels (small finite menu, simplest first)
    apply_op(obj, op)       -> observation (must not raise: wrap exceptions into the observation)
    canon(obj)              -> hashable canonical state
    judge(history, op, obs, obj) -> None (called for every transition explored)
    Returns dict(states, transitions, max_depth_reached, fixpoint_reached, op_executions).
    """
    init = build()
    seen = {canon(init): ()}
    frontier = collections.deque([()])
    transitions = 0
    execs = 0
    deepest = 0
    truncated = False
    while frontier:
        hist = frontier.popleft()
        if len(hist) >= max_depth:
            truncated = True
            continue
        for op in ops:
            obj = build()
            for h in hist:
                apply_op(obj, h)
                execs += 1
            obs = apply_op(obj, op)
            execs += 1
            transitions += 1
            judge(hist, op, obs, obj)
            k = canon(obj)
            if k not in seen:
                if len(seen) >= max_states:
                    truncated = True
                    continue
                seen[k] = hist + (op,)
                frontier.append(hist + (op,))
                deepest = max(deepest, len(hist) + 1)
    return dict(states=len(seen), transitions=transitions, max_depth_reached=deepest,
                fixpoint_reached=not truncated, op_executions=execs, state_histories=seen)
