#!/venv/bin/python
"""run.py <Cxx> --tier quick|thorough [--replay file] [--selftest]

Exit 0: property held on everything explored (KNOWN-FINDING lines may be printed).
Exit 1: VIOLATION property=<id> replay=<path>
Exit 2: harness nondeterminism (never reported as a violation), 3: harness error.
"""
import argparse
import os
import sys

HERE = os.path.dirname(os.path.abspath(__file__))
VERIF = os.path.dirname(HERE)
sys.path.insert(0, VERIF)

# own the hash seed: re-exec once so set/dict iteration inside the library is reproducible
if os.environ.get('PYTHONHASHSEED') != '0' and not os.environ.get('VERIF_KEEP_HASHSEED'):
    os.environ['PYTHONHASHSEED'] = '0'
    os.execv(sys.executable, [sys.executable, '-B', '-W', 'ignore'] + sys.argv)

os.environ.setdefault('MPLBACKEND', 'Agg')
os.environ.setdefault('OMP_NUM_THREADS', '1')
os.environ.setdefault('OPENBLAS_NUM_THREADS', '1')
os.environ.setdefault('MKL_NUM_THREADS', '1')

import warnings  # noqa: E402
warnings.filterwarnings('ignore')


def main():
    ap = argparse.ArgumentParser()
    ap.add_argument('pid')
    ap.add_argument('--tier', default=os.environ.get('VERIF_TIER', 'quick'), choices=['quick', 'thorough'])
    ap.add_argument('--replay')
    ap.add_argument('--workers', type=int, default=None)
    ap.add_argument('--max-cases', type=int, default=None)
    ap.add_argument('--digests', help='comma separated case indices: print their digests as JSON (determinism cross-check)')
    a = ap.parse_args()
    seed = int(os.environ.get('VERIF_SEED', '0') or 0)
    from mc import engine
    if a.pid == 'selftest':
        from mc import selftest
        return selftest.main()
    if a.replay:
        return engine.replay(a.pid, a.replay)
    if a.digests:
        return engine.digests(a.pid, a.tier, seed, [int(x) for x in a.digests.split(',')])
    return engine.run(a.pid, a.tier, seed, workers=a.workers, max_cases=a.max_cases)


if __name__ == '__main__':
    sys.exit(main())
